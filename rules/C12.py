"""C12 - cross-thread hand-off containers (TransactionalBuffer, TransactionalValue) lose, duplicate and race on nothing.

Decided statically on the CFG of every instantiated member (payloads int / double / std::string / std::vector<int>):

  R-C12-1  guarded-by lock discipline with a frozen field -> mutex table (confirmed by reading the two headers):
               TransactionalBuffer::buffer                      -> bufferMutex
               TransactionalValue::{newValue, queuedValue}      -> mutex
               TransactionalValue::currentValue                 consumer-confined (constructor, ref, get, update)
           Every read or write of a guarded member in any member function lies inside the lifetime of a
           lock_guard / unique_lock / scoped_lock on that mutex of the same object (scope = DeclStmt of the lock variable
           ... its AutomaticObjectDtor element in the CFG; unlock()/lock() toggle).  A guarded member of std::atomic type
           may be *loaded* outside the lock; its stores still belong inside (flag and queued value change together).
           No reference to a guarded member is returned.  The producer-side members never touch currentValue.
  R-C12-2  TransactionalBuffer: push_back appends its argument exactly once on every path (push_back / emplace_back);
           consume() returns the whole content by value and leaves the buffer empty (move-out, swap with a fresh vector,
           or copy + clear) inside the lock; no other member mutates the buffer.
  R-C12-3  TransactionalValue::update(): returns true exactly on the paths that install (currentValue <- queuedValue);
           installs only after observing the flag set, and whenever it observed it set; the flag is reset inside the same
           lock scope as the install.
  R-C12-2 (atomic hand-out)  consume(): critical sections are numbered; a value observed from the buffer (size(), empty(), ...,
           also through a followed helper) carries the number of the section it was read in.  An element-wise hand-out loop is
           classified where its condition is evaluated: bounded by an observation of the *current* section (or by the buffer
           itself) it hands out everything; bounded by an observation of an *earlier* section it hands out a stale prefix, and
           a following clear() then destroys elements that never reached a batch (violation).
  R-C12-3 (faithful pending test)  the indicator update() tests is a boolean the producer sets and the consumer clears; if the
           flag is replaced by a comparison of counters narrower than 64 bits that the producer increments, the test wraps to
           "nothing new" after 2^width assignments (violation); other replacements are not decided.
  R-C12-5  the guarding lock orders consecutive critical sections: std::mutex & co are trusted; for a user-defined lockable
           unlock() must write with at least memory_order_release on every path and lock() must return only after a
           read-modify-write with at least memory_order_acquire that saw the lock free; fences are not modelled (undecided).
  (all rules) the entry points are the public members; calls to functions defined in the class's own header (private helpers,
           member templates, closures invoked directly) are followed with the lock state and the automaton state carried
           through (rkstatic.x_sync.Inliner), so a critical section that lives in a helper counts for its callers.
  (extra members)  a data member outside the table is decided from its accesses: an atomic that the producer / consumer side only
           writes (result unused) and only other accessors read is statistics and needs no lock; a plain member is fine when every
           access is under the mutex, or confined to one side, or never written after construction, and a data race (violation)
           when it is written without the lock while a member of the other side or an unclassified public member also touches it
           without the lock.  Members of the class template that the driver does not instantiate have no CFG: their accesses
           are judged on lexical lock scopes (lock_guard / unique_lock declared earlier in an enclosing block).
  R-C12-4  TransactionalValue assignment (producer): on every path the argument is stored into queuedValue and the flag is
           set, both inside one lock scope.
"""
import re

from rkstatic.x_sync import Sync, LockState, Inliner, Hooks, CALLS, last, is_atomic_type, fty_noexcept

LEVEL = 'other'
EXPLANATION = (
    "Lock-scope (guarded-by) analysis over the clang CFGs of every instantiated member of TransactionalBuffer<T> and "
    "TransactionalValue<T> (T = int, double, std::string, std::vector<int>) with a frozen field->mutex table decides, for "
    "all interleavings at once, that no guarded member is read or written outside a lock scope of its mutex (the "
    "data-race clause of the documented usage); small path automata decide that push_back appends its argument exactly "
    "once, consume() hands the whole content out and leaves the buffer empty, update() returns true exactly on the "
    "installing path and installs iff it saw the flag, and assignment queues value and flag in one critical section. "
    "These are necessary structural conditions of the property decided on every path. Not decided: the cross-thread "
    "order of values beyond what mutual exclusion implies; behaviour of the payload type and of std::vector / std::mutex "
    "themselves (trusted contracts).")

BUF = 'rkcommon::containers::TransactionalBuffer'
VAL = 'rkcommon::utility::TransactionalValue'
TABLE = {
    BUF: dict(file='rkcommon/containers/TransactionalBuffer.h', mutex='bufferMutex', guarded=('buffer',), confined={},
              producer=('push_back',), short='TransactionalBuffer'),
    VAL: dict(file='rkcommon/utility/TransactionalValue.h', mutex='mutex', guarded=('newValue', 'queuedValue'),
              confined={'currentValue': ('ref', 'get', 'update')}, producer=('operator=',), short='TransactionalValue'),
}
R1, R2, R3, R4, R5 = 'R-C12-1', 'R-C12-2', 'R-C12-3', 'R-C12-4', 'R-C12-5'
LOCK_EVENTS = ('locks', 'unlock-scope', 'lk-unlock', 'lk-lock', 'm-lock', 'm-unlock', 'lk-other', 'm-other')
APPEND = ('push_back', 'emplace_back')
NEUTRAL = ('reserve', 'shrink_to_fit', 'get_allocator', 'begin', 'end', 'rbegin', 'rend')   # creating an iterator mutates nothing
DESTRUCTIVE = ('clear', 'pop_back', 'erase', 'resize', 'assign', 'swap', 'operator=')
ALLOCATING = ('reserve', 'resize', 'assign', 'insert', 'emplace', 'push_back', 'emplace_back', 'shrink_to_fit')


def strip_targs(q):
    prev = None
    while prev != q:
        prev = q
        q = re.sub(r'<[^<>]*>', '', q)
    return q


def fn_short(f):
    q = strip_targs(f['q'])
    for p in ('rkcommon::containers::', 'rkcommon::utility::'):
        q = q.replace(p, '')
    return q


class Found:
    def __init__(self, file, inl=None):
        self.file = file
        self.inl = inl
        self.v = {}
        self.u = {}

    def viol(self, rule, fn, detail, why, node, at=None):
        key = '%s|%s|%s|%s' % (rule, self.file, fn, detail)
        chain = []
        if at is None and self.inl is not None and self.inl.stack:
            at, chain = self.inl.at, self.inl.chain()      # position in the entry function + helper call chain
        self.v.setdefault(key, (rule, why, node, at, chain))

    def und(self, rule, why, node):
        self.u.setdefault((rule, why), node)


def render_path(tu, g, keys):
    out = []
    for (b1, _s1), (b2, _s2) in zip(keys, keys[1:]):
        blk = g.blocks[b1]
        if blk.cond and len(blk.succ) == 2 and blk.succ[0] != blk.succ[1]:
            c = tu.node(blk.cond)
            out.append('%s: `%s` is %s' % (tu.loc(c), tu.show(c), 'true' if blk.succ[0] == b2 else 'false'))
    return out


def emit(ctx, tu, g, res, found, instance, rules_ok, loc, okmsg):
    bad = set()
    und_rules = {rule for (rule, _w) in found.u}
    for key, (rule, why, node, at, chain) in found.v.items():
        if rule in und_rules:
            continue
        bad.add(rule)
        path = []
        if at is not None and res is not None:
            path = render_path(tu, g, res.path_to(*at))
        path += chain
        if node is not None:
            path.append('%s: %s' % (tu.loc(node), tu.show(node)))
        ctx.violation(rule, instance, why, tu.loc(node) if node is not None else loc, key=key, path=path)
    for (rule, why), node in found.u.items():
        bad.add(rule)
        ctx.undecided(rule, instance, why, tu.loc(node) if node is not None else loc)
    for rule in rules_ok:
        if rule not in bad:
            ctx.ok(rule, instance, okmsg.get(rule, ''), loc)


def inliner(tu, T):
    """calls to functions defined in the class's own header (private helpers, member templates, closures invoked directly) are
    followed: lock state and automaton state are carried into the callee and back"""
    cache = tu.__dict__.setdefault('_c12_inl', {})
    if T['file'] not in cache:
        cache[T['file']] = Inliner(tu, lambda cf, file=T['file']: tu.fn_file(cf) == file)
    return cache[T['file']]


class C12Hooks(Hooks):
    """binds helper parameters that receive (an expression mentioning) one of the tracked argument declarations"""

    def __init__(self, sy, found, rule, ids=None):
        self.sy, self.found, self.rule, self.ids = sy, found, rule, ids

    def memo_extra(self, n, cf, args):
        sy = self.sy
        return tuple((sy.int_value(a), sy.field(sy.unwrap_move(a)), (sy.unwrap_move(a) or {}).get('id')) for a in args)

    def pre_call(self, n, cf, args, st):
        sy = self.sy
        for p, a in zip(cf.get('params', []), args):
            v = sy.int_value(a)
            if v is not None:
                sy.consts[p['id']] = v              # constant handed to the helper (e.g. the new value of the flag)
            else:
                sy.consts.pop(p['id'], None)
            pd = sy.tu.node(p['id'])
            if pd is not None and (pd.get('type', {}).get('qualType') or '').rstrip().endswith('&'):
                sy.ref_alias[p['id']] = a           # reference parameter: stands for the argument it is bound to
            else:
                sy.ref_alias.pop(p['id'], None)
            if self.sy.is_star_this(a):
                self.sy.this_alias.add(p['id'])     # a helper (object) that works on the analysed object through a reference
            if self.ids is not None and any(self.sy.mentions_var(a, i) for i in list(self.ids)):
                self.ids.add(p['id'])
        return [st]

    def problem(self, msg, n):
        self.found.und(self.rule, msg, n)


def mentions_any(sy, e, ids):
    return any(sy.mentions_var(e, i) for i in ids)


def is_public(f):
    return f.get('access') in (None, 'public', 'none')


DBV = 'rkcommon::utility::DoubleBufferedValue'


def dbv_member(tu):
    """name of the DoubleBufferedValue<T> member that replaces queuedValue / currentValue (back() = queued slot, guarded by the
    mutex; front() = current slot, consumer-confined; swap() = install), else None"""
    return tu.__dict__.get('_c12_dbv')


def slot_of(tu, sy, e, refs=None):
    """'queued' | 'current' | None for an expression that designates one of the two value slots of a TransactionalValue: the
    members queuedValue / currentValue, values.back() / values.front() of a DoubleBufferedValue member, or a local reference
    bound to one of those"""
    e = sy.unwrap_move(e) if e is not None else None
    if e is None:
        return None
    fld = sy.field(e)
    if fld is not None and fld[0] == VAL and sy.base_is_this(e):
        return {'queuedValue': 'queued', 'currentValue': 'current'}.get(fld[1])
    m = dbv_member(tu)
    if m is not None and e.get('kind') == 'CXXMemberCallExpr':
        s_, obj, _a = tu.call_parts(e)
        if obj is not None and sy.field(obj) == (VAL, m) and sy.base_is_this(obj) and s_.get('rec') == DBV:
            return {'back': 'queued', 'front': 'current'}.get(last(s_.get('q')))
    v = sy.local_var(e)
    if refs and v in refs:
        return refs[v]
    return None


def is_slot_swap(tu, sy, n):
    """values.swap() of the DoubleBufferedValue member: the queued slot becomes the current one"""
    m = dbv_member(tu)
    if m is None or n is None or n.get('kind') != 'CXXMemberCallExpr':
        return False
    s_, obj, _a = tu.call_parts(n)
    return obj is not None and sy.field(obj) == (VAL, m) and sy.base_is_this(obj) and s_.get('rec') == DBV and last(s_.get('q')) == 'swap'


def slot_refs(tu, sy, fns):
    """local references bound to a slot (`T &q = values.back();`): variable -> slot"""
    refs = {}
    for fn in fns:
        for x in tu.walk(tu.body(fn)) if tu.body(fn) is not None else ():
            if x.get('kind') == 'VarDecl' and 'id' in x and (x.get('type', {}).get('qualType') or '').rstrip().endswith('&') and tu.kids(x):
                sl = slot_of(tu, sy, tu.kids(x)[-1])
                if sl is not None:
                    refs[x['id']] = sl
    return refs


def generic_write(tu, n):
    """(lhs, rhs) of an assignment, built-in or through a (non-atomic) operator="""
    if n is None:
        return None
    if n.get('kind') == 'BinaryOperator' and n.get('opcode') == '=':
        ks = tu.kids(n)
        return ks[0], ks[1]
    if n.get('kind') == 'CXXOperatorCallExpr' and last(tu.sd(n).get('q')) == 'operator=' and tu.sd(n).get('rec') not in ('std::atomic', 'std::__atomic_base'):
        ks = tu.kids(n)
        if len(ks) == 3:
            return ks[1], ks[2]
    return None


def exit_at(res, via):
    ents = [k for k in res.pred if k[0] == via]
    return ents[0] if ents else None


def lock_step(sy, rec, T, locks, known, ev, n, found, rule):
    """apply a lock event; a lock on another object's mutex or in an unmodelled form makes the instance undecided"""
    if ev[0] == 'locks':
        for var, m, held, v in ev[1]:
            if m is not None and m[0] == rec:
                ce = sy.tu.strip(sy.tu.kids(v)[-1])
                arg = sy.tu.kids(ce)[0] if ce is not None and sy.tu.kids(ce) else None
                arg = sy.mutex_expr(arg) if arg is not None else None      # through `*ptr` / an accessor of this object
                if arg is None or not sy.base_is_this(arg):
                    found.und(rule, 'lock taken on the mutex of another object: not modelled', n)
    locks2, known2, prob = LockState.apply(locks, known, ev)
    if prob:
        found.und(rule, prob, n)
    return locks2, known2


# ======================================================================================================
#  R-C12-1 guarded-by
# ======================================================================================================
def nearest_user(tu, n):
    """nearest ancestor that is not a transparent wrapper / bound-member-function expression"""
    p = tu.par(n)
    hops = 0
    while p is not None and hops < 8:
        k = p.get('kind')
        if k in ('ImplicitCastExpr', 'ParenExpr', 'ExprWithCleanups', 'MaterializeTemporaryExpr', 'CXXBindTemporaryExpr') or \
                (k == 'MemberExpr' and 'fi' not in tu.sd(p)):
            p = tu.par(p)
            hops += 1
            continue
        return p
    return p


def bound_to_ref_param(tu, sy, inl, n):
    """is the member expression n (possibly inside std::move / std::forward / casts) passed to a reference parameter of a followed
    helper?  Then no access happens at this point."""
    x = n
    for _ in range(6):
        u = nearest_user(tu, x)
        if u is None:
            return False
        if u.get('kind') == 'CallExpr' and tu.sd(u).get('q') in ('std::move', 'std::forward'):
            x = u
            continue
        if u.get('kind') in ('CXXStaticCastExpr', 'CStyleCastExpr', 'CXXFunctionalCastExpr', 'MaterializeTemporaryExpr'):
            x = u
            continue
        cf = inl.callee(u)
        if cf is None:
            return False
        for p_, a_ in zip(cf.get('params', []), inl.args(u, cf)):
            if any(y is x or y.get('id') == x.get('id') for y in tu.walk(a_) if 'id' in y):
                pd = tu.node(p_['id'])
                return pd is not None and (pd.get('type', {}).get('qualType') or '').rstrip().endswith('&')
        return False
    return False


HANDLE_FNS = {}         # id(tu) -> ids of the recognised locked-handle accessors of that unit


def recognise_handles(ctx, tu, sy, rec, T):
    """The "locked handle" idiom: a member function of the class returns, by value, a small record H that holds a
    std::unique_lock / std::lock_guard member and a pointer member; the lock member is constructed on the class mutex of *this and
    the pointer member is bound to a guarded member of *this (`return {std::unique_lock<std::mutex>(mutex), &member};`); H's
    operator-> / operator* return exactly that pointer / its pointee and H has no other member function.  Then the lifetime of
    the handle object is a lock scope - the full expression for a temporary, the enclosing scope for a named local that is
    initialised from the call - and `handle->...` / `*handle` are accesses to the member made under that lock.  If the lock member
    is constructed with std::defer_lock the handle does not lock (its accesses are then unlocked accesses).  Any other shape is
    not recognised (the existing rules then report the escaping address as undecided)."""
    inl = inliner(tu, T)
    inl.skip = set(getattr(inl, 'skip', ()))
    for f in tu.functions.values():
        if f['dep'] or f.get('rec') != rec or tu.body(f) is None or f.get('ctor') or f.get('dtor'):
            continue
        stmts = tu.kids(tu.body(f))
        if len(stmts) != 1 or stmts[0].get('kind') != 'ReturnStmt' or not tu.kids(stmts[0]):
            continue
        rt = f['fty'].split('(')[0].strip()
        hr = tu.records_by_type.get(rt) or tu.records_by_type.get(rt.replace('const ', ''))
        # the return type as written may be a dependent alias: find the record through the returned expression's type
        init = tu.strip(tu.kids(stmts[0])[0])
        while init is not None and init.get('kind') in ('CXXConstructExpr', 'CXXFunctionalCastExpr', 'CXXTemporaryObjectExpr') and \
                len(tu.kids(init)) == 1 and (tu.strip(tu.kids(init)[0]) or {}).get('kind') == 'InitListExpr':
            init = tu.strip(tu.kids(init)[0])
        if init is None or init.get('kind') != 'InitListExpr':
            continue
        hr = hr or tu.records_by_type.get(tu.sd(init).get('ct', ''))
        if hr is None or not hr.get('fields'):
            continue
        hf = hr['fields']
        locks = [x for x in hf if x['ct'].startswith(('std::unique_lock<', 'std::lock_guard<'))]
        ptrs = [x for x in hf if x['ct'].rstrip().endswith('*')]
        if len(hf) != 2 or len(locks) != 1 or len(ptrs) != 1:
            continue
        vals = tu.kids(init)
        if len(vals) != 2:
            continue
        li, pi = (0, 1) if hf[0] is locks[0] or hf[0]['name'] == locks[0]['name'] else (1, 0)
        lc = tu.strip(vals[li], casts=True)
        while lc is not None and lc.get('kind') in ('CXXConstructExpr', 'CXXTemporaryObjectExpr') and len(tu.kids(lc)) == 1 and \
                (tu.strip(tu.kids(lc)[0], casts=True) or {}).get('kind') in ('CXXConstructExpr', 'CXXTemporaryObjectExpr'):
            lc = tu.strip(tu.kids(lc)[0], casts=True)          # the move of the freshly constructed lock into the member
        if lc is None or lc.get('kind') not in ('CXXConstructExpr', 'CXXTemporaryObjectExpr') or tu.sd(lc).get('rec') not in ('std::unique_lock', 'std::lock_guard'):
            continue
        largs = [a for a in tu.kids(lc) if (tu.strip(a) or {}).get('kind') != 'CXXDefaultArgExpr']
        mx = sy.mutex_expr(largs[0]) if largs else None
        if mx is None or sy.field(mx) != (rec, T['mutex']) or not sy.base_is_this(mx):
            continue
        held = True
        if len(largs) == 2:
            tag = tu.sd(tu.strip(largs[1], casts=True)).get('ct', '') or ''
            if 'defer_lock_t' in tag:
                held = False
            else:
                continue
        elif len(largs) != 1:
            continue
        pe = tu.strip(vals[pi], casts=True)
        if pe is None or pe.get('kind') != 'UnaryOperator' or pe.get('opcode') != '&':
            continue
        tgt = sy.field(tu.kids(pe)[0])
        if tgt is None or tgt[0] != rec or tgt[1] not in T['guarded'] or not sy.base_is_this(tu.kids(pe)[0]):
            continue
        # the handle class: operator-> returns the pointer member, operator* its pointee; nothing else
        hfns = [h for h in tu.functions.values() if not h['dep'] and h.get('rec') == hr['q'] and h.get('recid') == hr['id']]
        ok, ops = True, set()
        for h in hfns:
            if h.get('ctor') or h.get('dtor') or h.get('assign'):
                continue
            nm = last(h['q'])
            body = tu.body(h)
            hs = tu.kids(body) if body is not None else []
            rx = tu.strip(tu.kids(hs[0])[0], casts=True) if len(hs) == 1 and hs[0].get('kind') == 'ReturnStmt' and tu.kids(hs[0]) else None
            if nm == 'operator->' and rx is not None and rx.get('kind') == 'MemberExpr' and rx.get('name') == ptrs[0]['name']:
                ops.add(h['id'])
            elif nm == 'operator*' and rx is not None and rx.get('kind') == 'UnaryOperator' and rx.get('opcode') == '*' and \
                    (tu.strip(tu.kids(rx)[0], casts=True) or {}).get('kind') == 'MemberExpr' and \
                    tu.strip(tu.kids(rx)[0], casts=True).get('name') == ptrs[0]['name']:
                ops.add(h['id'])
            else:
                ok = False
        if not ok or not ops:
            continue
        sy.handles[f['id']] = {'mutex': (rec, T['mutex']), 'target': tgt, 'held': held, 'ctor': lc, 'rec': hr['q'], 'lockmem': locks[0]['name']}
        sy.handle_ops |= ops
        HANDLE_FNS.setdefault(id(tu), set()).add(f['id'])
        inl.skip |= {f['id']} | {h['id'] for h in tu.functions.values() if h.get('rec') == hr['q']}
    if any(v['mutex'][0] == rec for v in sy.handles.values()):
        ctx.note('%s: locked-handle accessor(s) recognised: %s' % (T['short'], ', '.join(sorted({
            '%s%s' % (last(tu.functions[i]['q']), '' if v['held'] else ' (does not lock)') for i, v in sy.handles.items() if v['mutex'][0] == rec}))))


def handle_misuse(tu, sy, fns):
    """uses of a locked handle (or of a raw pointer taken from it) outside the modelled forms - the handle is dereferenced with
    -> / * in place, initialises a named local handle, or its lock member is lock()ed / unlock()ed; a raw pointer `&*handle`
    initialises a local pointer that is only dereferenced: (node, description) for everything else"""
    if not sy.handles:
        return
    hrecs = {i['rec'] for i in sy.handles.values()}

    def is_obj_of(call, n, names=None, ops=False):
        if call is None or call.get('kind') not in ('CXXMemberCallExpr', 'CXXOperatorCallExpr'):
            return False
        cf = tu.callee_fn(call)
        if ops and (cf is None or cf['id'] not in sy.handle_ops):
            return False
        if names is not None and last(tu.sd(call).get('q') or '') not in names:
            return False
        obj = tu.call_parts(call)[1]
        x = tu.strip(obj, casts=True) if obj is not None else None
        while x is not None and x is not n and x.get('kind') in ('CXXConstructExpr', 'CXXTemporaryObjectExpr') and len(tu.kids(x)) == 1:
            x = tu.strip(tu.kids(x)[0], casts=True)
        return x is n

    def handle_local(did):
        d = tu.node(did) if did is not None else None
        return d is not None and d.get('kind') == 'VarDecl' and bool(tu.kids(d)) and sy.handle_call(tu.kids(d)[-1]) is not None

    for fn in fns:
        if fn['id'] in sy.handles or fn.get('rec') in hrecs or tu.body(fn) is None:
            continue
        for x in tu.walk(tu.body(fn)):
            k = x.get('kind')
            if 'id' not in x:
                continue
            if k == 'CXXMemberCallExpr' and (tu.callee_fn(x) or {}).get('id') in sy.handles:
                u = nearest_user(tu, x)
                while u is not None and u.get('kind') in ('CXXConstructExpr', 'CXXTemporaryObjectExpr') and len(tu.kids(u)) == 1 and \
                        tu.sd(u).get('rec') in hrecs:
                    u = nearest_user(tu, u)
                if sy.handle_call(x) is None:
                    yield x, 'the locked-handle accessor is called on another object'
                elif not (is_obj_of(u, x, ops=True) or (u is not None and u.get('kind') == 'VarDecl' and handle_local(u['id']))):
                    yield x, 'the locked handle is used other than dereferenced in place (-> / *) or kept in a local handle'
            elif k == 'DeclRefExpr' and handle_local(x.get('referencedDecl', {}).get('id')):
                u = nearest_user(tu, x)
                if not (is_obj_of(u, x, ops=True) or (u is not None and u.get('kind') == 'MemberExpr' and sy.handle_lock_holder(u) is not None)):
                    yield x, 'the local locked handle %s is used other than through -> / *' % x['referencedDecl'].get('name')
            elif k == 'MemberExpr' and (sy.field(x) or (None,))[0] in hrecs and 'fi' in tu.sd(x):
                u = nearest_user(tu, x)
                if not (sy.handle_lock_holder(x) is not None and is_obj_of(u, x, names=('lock', 'unlock'))):
                    yield x, 'the member %s of the locked handle is used directly' % x.get('name')
            elif k == 'CXXOperatorCallExpr' and (tu.callee_fn(x) or {}).get('id') in sy.handle_ops:
                u = nearest_user(tu, x)
                if sy.handle_target(x) is None:
                    yield x, 'a locked handle that is not obtained from this object is dereferenced'
                elif u is not None and u.get('kind') == 'UnaryOperator' and u.get('opcode') == '&':
                    vd = nearest_user(tu, u)
                    if not (vd is not None and vd.get('kind') == 'VarDecl' and vd.get('id') in sy.ptr_alias):
                        yield x, 'the address of the guarded member is taken through the handle and escapes its lock scope'
                elif u is not None and u.get('kind') == 'VarDecl' and '&' in (u.get('type', {}).get('qualType') or ''):
                    yield x, 'a local reference is bound to the guarded member through the handle'
            elif k == 'DeclRefExpr' and x.get('referencedDecl', {}).get('id') in sy.ptr_alias:
                u = nearest_user(tu, x)
                uk = (u or {}).get('kind')
                if not ((uk == 'MemberExpr' and 'fi' in tu.sd(u)) or (uk == 'UnaryOperator' and u.get('opcode') == '*') or
                        is_obj_of(u, x)):
                    yield x, 'the raw pointer %s to the guarded member is used other than dereferenced' % x['referencedDecl'].get('name')


def raw_pointer_aliases(tu, sy, rec, T, fns):
    """locals of pointer type initialised with the address of a guarded member - directly or through a handle (`&*locked()`)"""
    for fn in fns:
        for x in tu.walk(tu.body(fn)) if tu.body(fn) is not None else ():
            if x.get('kind') == 'VarDecl' and 'id' in x and (x.get('type', {}).get('qualType') or '').rstrip().endswith('*') and tu.kids(x):
                init = tu.strip(tu.kids(x)[-1], casts=True)
                if init is not None and init.get('kind') == 'UnaryOperator' and init.get('opcode') == '&':
                    tgt = sy.field(tu.kids(init)[0])
                    if tgt is not None and tgt[0] == rec and tgt[1] in T['guarded'] and sy.base_is_this(tu.kids(init)[0]):
                        sy.ptr_alias[x['id']] = tgt


def check_guarded(ctx, tu, sy, rec, T, f, counts):
    g = tu.cfg(f)
    inl = inliner(tu, T)
    found = Found(T['file'], inl)
    cur = {}
    name = last(f['q'])
    mutex = (rec, T['mutex'])
    nacc = [0]
    public = is_public(f)

    def cur_fn():               # the function the explored element belongs to (the entry or a followed helper)
        return inl.stack[-1] if inl.stack else f

    def unlocked(rule, fn, detail, why, node):
        if public:
            found.viol(rule, fn, detail, why, node)
        else:
            found.und(rule, 'non-public member accesses a guarded member without taking the lock itself; whether every caller holds '
                      'it is not modelled', node)

    srefs = slot_refs(tu, sy, inl.reachable_fns(f)) if rec == VAL else {}
    raw_pointer_aliases(tu, sy, rec, T, inl.reachable_fns(f))
    for x_, why_ in handle_misuse(tu, sy, inl.reachable_fns(f)):
        found.und(R1, '%s: not modelled' % why_, x_)
    # 3. guarded members used inside a nested closure that is not invoked directly are outside the explored CFGs
    reach = inl.reachable_fns(f)
    reach_ids = {x['id'] for x in reach}
    for fn in reach:
        for lam in tu.walk(tu.body(fn)) if tu.body(fn) is not None else ():
            if lam.get('kind') == 'LambdaExpr' and tu.sd(lam).get('op') not in reach_ids and \
                    any(sy.mentions_field(lam, (rec, gname)) for gname in T['guarded']):
                found.und(R1, 'a guarded member is used inside a nested lambda that is not called directly: not modelled', lam)

    def transfer(blk, i, e, st):
        if i == 0:
            cur['at'] = (blk.id, st)
        locks, known = st
        ev = sy.event(e)
        n = tu.node(e[1]) if e[0] == 'S' else None
        if ev is not None and ev[0] in LOCK_EVENTS:
            again = (ev[0] == 'locks' and any(m_ == mutex and h_ is True for _v, m_, h_, _x in ev[1])) or \
                    (ev[0] in ('m-lock', 'lk-lock') and (ev[1] == mutex or dict(known).get(ev[1]) == mutex))
            if again and LockState.holds(locks, mutex):
                chain = [x['q'].split('::')[-1] for x in inl.stack]
                found.viol(R5, fn_short(f), 'mutex-locked-again', '%s is locked a second time while it is still held (%s): std::mutex is '
                           'not recursive - undefined behaviour, in practice the thread blocks on itself for ever with the mutex held, '
                           'and every other member blocks behind it' % (T['mutex'], ' -> '.join(chain) or name), n)
            locks, known = lock_step(sy, rec, T, locks, known, ev, n, found, R1)
            return [(locks, known)]
        if n is None:
            return [st]
        if n.get('kind') in CALLS and ('direct', mutex) in locks:
            sdn = tu.sd(n)
            if not fty_noexcept(sdn.get('fty') or '') and sdn.get('rec') not in ('std::mutex', 'std::atomic', 'std::__atomic_base') \
                    and sdn.get('q') not in ('std::move', 'std::forward') and sdn.get('fty'):
                found.viol(R5, fn_short(cur_fn()), 'lock-held-across-throwing-call', '%s is locked with a bare %s.lock() and %s can throw '
                           '(std::bad_alloc, a throwing copy of the payload) before the matching unlock(): the exception leaves the '
                           'mutex locked for ever, and every later push_back / consume / size blocks. Use a lock_guard / unique_lock'
                           % (T['mutex'], T['mutex'], sdn.get('q') or tu.show(n)), n)
        # stores / read-modify-writes on an atomic guarded member (decoded at the call element)
        if ev is not None and ev[0] in ('store', 'rmw') and ev[1] is not None and ev[1][0] == rec and ev[1][1] in T['guarded'] \
                and n.get('kind') in ('CXXMemberCallExpr', 'CXXOperatorCallExpr') and sy.atomic_op(n) is not None:
            nacc[0] += 1
            if not LockState.holds(locks, mutex):
                if ev[0] == 'rmw':
                    found.und(R1, 'read-modify-write %s on the atomic member %s outside the lock: a lock-free hand-off protocol, not '
                              'modelled' % (ev[2], ev[1][1]), n)
                else:
                    unlocked(R1, fn_short(cur_fn()), '%s-unlocked' % ev[1][1], 'the atomic member %s is written outside a lock scope of %s; the flag and '
                             'the queued value must change together' % (ev[1][1], T['mutex']), n)
            return [st]
        if rec == VAL and dbv_member(tu) is not None and n.get('kind') in ('CXXMemberCallExpr', 'DeclRefExpr'):
            sl = slot_of(tu, sy, n, srefs) if n.get('kind') == 'CXXMemberCallExpr' else srefs.get(n.get('referencedDecl', {}).get('id'))
            swp = is_slot_swap(tu, sy, n)
            if sl == 'queued' or swp:
                nacc[0] += 1
                if not LockState.holds(locks, mutex):
                    what = ('%s.swap() exchanges the queued and the current slot' % dbv_member(tu)) if swp else \
                        ('%s.back() selects the queued slot (it reads the slot index that update() flips under the mutex)' % dbv_member(tu)
                         if n.get('kind') == 'CXXMemberCallExpr' else 'the queued slot is used through the local reference `%s`'
                         % n.get('referencedDecl', {}).get('name'))
                    unlocked(R1, fn_short(cur_fn()), 'queued-slot-unlocked', '%s on a path where no lock on %s is held: the producer can '
                             'end up writing the slot the consumer is reading (the consumer swaps the slots in update()), and the '
                             'unsynchronised read of the index is a data race' % (what, T['mutex']), n)
            elif sl == 'current':
                nacc[0] += 1
                if name in T['producer']:
                    found.viol(R1, fn_short(cur_fn()), 'current-slot-in-producer', 'the producer-side member %s touches the consumer-confined '
                               'current slot (%s.front())' % (name, dbv_member(tu)), n)
            return [st]
        if (sy.handles or sy.ptr_alias) and n.get('kind') in ('CXXOperatorCallExpr', 'DeclRefExpr'):
            tgt_ = sy.handle_target(n) if (n.get('kind') == 'CXXOperatorCallExpr' or
                                           n.get('referencedDecl', {}).get('id') in sy.ptr_alias) else None
            if tgt_ is not None and tgt_[0] == rec and tgt_[1] in T['guarded']:
                nacc[0] += 1
                if not LockState.holds(locks, mutex):
                    how = 'a raw pointer to it that outlives the handle it was taken from' if n.get('kind') == 'DeclRefExpr' else \
                        'a handle that does not hold the lock'
                    unlocked(R1, fn_short(cur_fn()), '%s-unlocked' % tgt_[1], 'the member %s (guarded by %s) is accessed through %s on a '
                             'path where no lock on %s is held: data race with the other thread\'s locked access'
                             % (tgt_[1], T['mutex'], how, T['mutex']), n)
                return [st]
        if n.get('kind') == 'DeclRefExpr' and n.get('referencedDecl', {}).get('id') in sy.ref_alias:
            tgt = sy.deref_alias(n)
            if tgt is None or tgt.get('kind') != 'MemberExpr':
                return [st]
        elif n.get('kind') != 'MemberExpr':
            return [st]
        elif bound_to_ref_param(tu, sy, inl, n):
            return [st]             # only a reference is formed here
        fld = sy.field(n)
        if fld is not None and n.get('kind') == 'MemberExpr' and any(fld[0] == i['rec'] for i in sy.handles.values()):
            return [st]             # (see handle_misuse)
        if fld is None or fld[0] != rec:
            return [st]
        if fld[1] in T['guarded']:
            if not sy.base_is_this(n):
                found.und(R1, 'access to %s of another object: its lock is not modelled' % fld[1], n)
                return [st]
            user = nearest_user(tu, n)
            if is_atomic_type(tu.sd(n).get('ct')):
                a = sy.atomic_op(user) if user is not None else None
                if a is None:
                    found.und(R1, 'atomic member %s used other than through load/store/operator=/operator T' % fld[1], n)
                elif a['op'] == 'load':
                    nacc[0] += 1          # exempt: atomic load
                return [st]
            nacc[0] += 1
            if user is not None and user.get('kind') == 'UnaryOperator' and user.get('opcode') == '&':
                vd = nearest_user(tu, user)
                if not (vd is not None and vd.get('kind') == 'VarDecl' and vd.get('id') in sy.ptr_alias):
                    found.und(R1, 'address of the guarded member %s is taken: escapes the lock scope' % fld[1], n)
            ru, hops = user, 0
            while ru is not None and hops < 5 and (ru.get('kind') in ('CXXStaticCastExpr', 'CXXConstCastExpr', 'CStyleCastExpr') or
                                                    (ru.get('kind') == 'CallExpr' and tu.sd(ru).get('q') in ('std::move', 'std::forward'))):
                ru = nearest_user(tu, ru)
                hops += 1
            if cur_fn()['fty'].split('(')[0].strip().endswith(('&', '*')) and ru is not None and ru.get('kind') == 'ReturnStmt':
                found.viol(R1, fn_short(cur_fn()), '%s-escapes' % fld[1], '%s returns a reference (%s) to the guarded member %s instead of '
                           'a value: nothing is taken out under the lock - the caller reads / moves from the member after %s has '
                           'released %s, concurrently with the other thread\'s locked accesses (data race; elements pushed in between '
                           'are lost or seen torn)' % (last(cur_fn()['q']), cur_fn()['fty'].split('(')[0].strip(), fld[1],
                                                       last(cur_fn()['q']), T['mutex']), n)
            if not LockState.holds(locks, mutex):
                unlocked(R1, fn_short(cur_fn()), '%s-unlocked' % fld[1], 'the member %s (guarded by %s) is accessed on a path where no lock on %s is '
                         'held: data race with the other thread\'s locked access' % (fld[1], T['mutex'], T['mutex']), n)
            return [st]
        if fld[1] in T['confined']:
            nacc[0] += 1
            if name in T['producer']:
                found.viol(R1, fn_short(cur_fn()), '%s-in-producer' % fld[1], 'the producer-side member %s touches the consumer-confined member %s'
                           % (name, fld[1]), n)
            elif name not in T['confined'][fld[1]]:
                found.und(R1, 'member function %s is not classified as producer or consumer side but touches %s' % (name, fld[1]), n)
        return [st]

    def refine(blk, si, st):
        return [LockState.refine_try(sy, blk, si, st[0], st[1])]

    res, _outs = inl.explore(f, [(frozenset(), frozenset())], transfer, refine, C12Hooks(sy, found, R1))
    counts[R1] += 1
    inst = '%s %s' % (f['q'].replace('rkcommon::containers::', '').replace('rkcommon::utility::', ''), f['fty'])
    emit(ctx, tu, g, res, found, inst, (R1,), tu.fn_loc(f), {R1: '%d access(es) to guarded/confined members, all permitted' % nacc[0]})


# ======================================================================================================
#  R-C12-2 buffer mutators
# ======================================================================================================
def own_call(tu, n, rec):
    """callee name if n calls another member function of the analysed class"""
    if n is None or n.get('kind') not in CALLS:
        return None
    s = tu.sd(n)
    if s.get('rec') == rec and s.get('k') == 'call':
        cf = tu.callee_fn(n)
        if cf is not None and cf['id'] in HANDLE_FNS.get(id(tu), ()):
            return None                 # a recognised locked-handle accessor: modelled as a lock scope (recognise_handles)
        return last(s.get('q'))
    return None


def buffer_call(tu, sy, n, fld):
    """(name, args, const?) if n is a member call on this->buffer"""
    if n.get('kind') not in ('CXXMemberCallExpr', 'CXXOperatorCallExpr'):
        return None
    s, obj, args = tu.call_parts(n)
    if obj is None or sy.field(obj) != fld or not sy.base_is_this(obj):
        return None
    fty = s.get('fty', '')
    tail = fty.rsplit(')', 1)[-1]
    return last(s.get('q')), args, 'const' in tail


def is_buffer(tu, sy, e, fld):
    e = sy.unwrap_move(e)
    return e is not None and sy.field(e) == fld and sy.base_is_this(e)


def is_move(tu, sy, ctor_or_call):
    return '&&' in (tu.sd(ctor_or_call).get('fty') or '')


def check_buffer_ops(ctx, tu, sy, f, counts):
    T = TABLE[BUF]
    g = tu.cfg(f)
    inl = inliner(tu, T)
    found = Found(T['file'], inl)
    cur = {}
    FN = fn_short(f)
    name = last(f['q'])
    fld = (BUF, 'buffer')
    params = {p['id'] for p in f.get('params', [])[:1]}      # the element (+ helper parameters bound to it)
    hooks = C12Hooks(sy, found, R2, params)
    raw_pointer_aliases(tu, sy, BUF, T, inl.reachable_fns(f))
    for x_, why_ in handle_misuse(tu, sy, inl.reachable_fns(f)):
        found.und(R2, '%s: not modelled' % why_, x_)
    # the buffer reached through a pointer (its address handed to a helper object): operations through that pointer are not
    # seen by the automata below, so nothing can be concluded from their absence
    for fn_ in inl.reachable_fns(f):
        for x_ in tu.walk(tu.body(fn_)) if tu.body(fn_) is not None else ():
            vd_ = nearest_user(tu, x_) if x_.get('kind') == 'UnaryOperator' and 'id' in x_ else None
            if x_.get('kind') == 'UnaryOperator' and x_.get('opcode') == '&' and 'id' in x_ and tu.kids(x_) and \
                    sy.field(tu.kids(x_)[0]) == fld and fn_['id'] not in sy.handles and \
                    not (vd_ is not None and vd_.get('kind') == 'VarDecl' and vd_.get('id') in sy.ptr_alias):
                found.und(R2, 'the buffer is reached through a pointer (its address is taken in %s): operations through the pointer '
                          'are not modelled' % fn_short(fn_), x_)
    inst = '%s %s' % (f['q'].replace('rkcommon::containers::', ''), f['fty'])
    counts[R2] += 1

    if name == 'push_back':
        side = set()        # (other member container, call) the element was appended to on some path

        slot_calls = set()  # calls of followed helpers that return a reference to the last element (`return buffer.back()`)

        def throwing_assign(node):
            if node.get('kind') in ('CXXOperatorCallExpr', 'CXXMemberCallExpr', 'CallExpr'):
                return not fty_noexcept(tu.sd(node).get('fty'))
            return False

        def is_last_slot(e):
            x = tu.strip(e, casts=True) if e is not None else None
            if x is None:
                return False
            if x.get('id') in slot_calls:
                return True
            bc_ = buffer_call(tu, sy, x, fld)
            return bc_ is not None and bc_[0] == 'back'

        # state: appends to the buffer (0, 1, 2 = more) + 100 if the element went to another member container on this path
        #        + 1000 while an empty slot has been appended that still waits for the value
        def transfer(blk, i, e, st):
            if i == 0:
                cur['at'] = (blk.id, st)
            n = tu.node(e[1]) if e[0] == 'S' else None
            if n is None:
                return [st]
            if own_call(tu, n, BUF):
                found.und(R2, 'push_back delegates to the member %s(): not modelled' % own_call(tu, n, BUF), n)
            gw = generic_write(tu, n)
            if gw is not None and is_last_slot(gw[0]):
                if st >= 1000 and params and mentions_any(sy, gw[1], params):
                    if throwing_assign(n):
                        found.viol(R2, FN, 'slot-appended-before-value', 'push_back first appends an empty element and then assigns the '
                                   'value into it, and that assignment can throw (%s): when it does, the producer sees push_back fail, '
                                   'but the default-constructed element stays in the buffer and is delivered to the consumer - an '
                                   'element nobody pushed. vector::push_back / emplace_back(value) has the strong guarantee'
                                   % (tu.sd(n).get('q') or 'payload assignment'), n)
                    return [st - 1000 + (1 if st % 100 < 2 else 0)]
                found.und(R2, 'the last element of the buffer is overwritten in push_back: not modelled', n)
                return [st]
            bc = buffer_call(tu, sy, n, fld)
            if bc is None:
                # the element appended to *another* member container of this object
                if n.get('kind') == 'CXXMemberCallExpr':
                    s_, obj, args = tu.call_parts(n)
                    of = sy.field(obj) if obj is not None else None
                    if of is not None and of[0] == BUF and of != fld and sy.base_is_this(obj) and last(s_.get('q')) in APPEND + ('insert', 'emplace') \
                            and args and params and any(mentions_any(sy, a, params) for a in args):
                        side.add((of[1], n['id']))
                        return [st + 100 if (st // 100) % 10 == 0 else st]
                return [st]
            nm, args, const = bc
            if nm in APPEND:
                if not args and st < 1000:
                    return [st + 1000]          # an empty slot: the value has to follow (see above)
                if not (args and params and mentions_any(sy, args[0], params)):
                    found.viol(R2, FN, 'appends-other-value', 'push_back appends something other than its argument', n)
                else:
                    a0 = tu.strip(args[0], casts=True)
                    if a0 is not None and a0.get('kind') == 'CallExpr' and tu.sd(a0).get('q') == 'std::move' and len(tu.kids(a0)) == 2:
                        pv = sy.local_var(tu.kids(a0)[1])
                        pd = tu.node(pv) if pv is not None else None
                        pt = ((pd or {}).get('type', {}).get('desugaredQualType') or (pd or {}).get('type', {}).get('qualType') or '').strip()
                        rr = tu.records.get(f.get('recid')) or {}
                        trivial = bool(rr.get('targs') and rr['targs'][0].get('trivially_copyable'))    # moving == copying
                        if pd is not None and pd.get('kind') == 'ParmVarDecl' and pv in params and pt.endswith('&') and \
                                not pt.endswith('&&') and not pt.startswith('const ') and not trivial:
                            found.viol(R2, FN, 'moves-from-lvalue-argument', 'push_back is instantiated for a non-const lvalue argument '
                                       '(parameter type `%s`) and appends std::move(%s): the caller\'s own object is gutted by the push. A '
                                       'producer that pushes the same object again (or keeps using it) delivers a moved-from husk - an '
                                       'element whose value nobody pushed. A forwarding reference has to be passed on with std::forward'
                                       % (pt, pd.get('name')), n)
                return [st + 1 if st % 100 < 2 else st]
            if const or nm in NEUTRAL or nm in ('back', 'front', 'operator[]', 'at'):
                return [st]
            if nm in ('insert', 'emplace'):
                pe = tu.strip(args[0], casts=True) if args else None
                while pe is not None and pe.get('kind') in ('CXXConstructExpr', 'CXXTemporaryObjectExpr') and len(tu.kids(pe)) == 1:
                    pe = tu.strip(tu.kids(pe)[0], casts=True)       # iterator -> const_iterator conversion
                pos = buffer_call(tu, sy, pe, fld) if pe is not None else None
                if pos is not None and pos[0] in ('end', 'cend') and len(args) == 2 and params and mentions_any(sy, args[1], params):
                    return [st + 1 if st % 100 < 2 else st]
                if pos is not None and pos[0] in ('begin', 'cbegin'):
                    found.viol(R2, FN, 'inserts-not-at-end', 'push_back inserts at the front of the buffer: elements of one producer are '
                               'consumed in reverse push order', n)
                    return [st + 1 if st % 100 < 2 else st]
                found.und(R2, 'positional %s on the buffer: append-equivalence not modelled' % nm, n)
                return [st]
            if nm in DESTRUCTIVE:
                found.viol(R2, FN, 'mutates-buffer', 'push_back calls %s() on the buffer: only appending is allowed on the producer side'
                           % nm, n)
            else:
                found.und(R2, 'non-const call %s() on the buffer in push_back: not modelled' % nm, n)
            return [st]

        class PushHooks(C12Hooks):
            def ret_value(self, e, st):
                return 'slot' if is_last_slot(e) else None

            def post_call(self, n, cf, st, rv):
                if rv == 'slot':
                    slot_calls.add(n['id'])
                return [st]

        res, outs = inl.explore(f, [0], transfer, None, PushHooks(sy, found, R2, params))
        for (st, _rv, via) in outs:
            if g.blocks[via].noret:
                continue
            if st >= 1000:
                found.viol(R2, FN, 'appends-other-value', 'push_back appends an empty element and returns without giving it the value of '
                           'its argument', None, exit_at(res, via))
                st -= 1000
            if (st // 100) % 10 == 1:
                other = sorted({x[0] for x in side})
                nid = sorted(side)[0][1]
                found.viol(R2, FN, 'element-in-second-container', 'on some path push_back appends the element to the member container %s '
                           'instead of (or besides) the buffer: the hand-off then runs through two sequences, and however consume() '
                           'concatenates them, two elements pushed by one producer - the earlier one parked in %s, the later one '
                           'appended to the buffer - are delivered out of push order' % (', '.join(other), ', '.join(other)),
                           tu.node(nid), exit_at(res, via))
            elif st == 0:
                found.viol(R2, FN, 'element-dropped', 'a path through push_back returns without appending the element', None, exit_at(res, via))
            elif st > 1:
                found.viol(R2, FN, 'element-duplicated', 'a path through push_back appends the element more than once', None, exit_at(res, via))
        emit(ctx, tu, g, res, found, inst, (R2,), tu.fn_loc(f), {R2: 'appends its argument exactly once on every path'})
        return

    if name == 'consume':
        if f['fty'].split('(')[0].strip().endswith(('&', '*')):
            # hands out a reference instead of a batch: nothing to follow here; R-C12-1 reports the escaping member
            counts[R2] += 0
            ctx.ok(R2, inst, 'returns a reference: judged by R-C12-1 (escape of the guarded member)', tu.fn_loc(f), nontrivial=False)
            return
        if not f['fty'].startswith('std::vector<'):
            found.und(R2, 'consume() does not return a std::vector by value', None)
        mutex = (BUF, T['mutex'])
        ELEMENT = ('operator[]', 'at', 'front', 'back', 'data')

        # state: (bufst, holders, fresh, ret, locks, known, epoch, taints, stale, branched)
        #   epoch: number of critical sections of bufferMutex entered so far; taints: (expression / variable / call, epoch) =
        #   value observed from the buffer in that critical section; holders: locals holding the whole content; stale: locals
        #   holding only the elements selected by an observation from an *earlier* critical section
        def var_of(e):
            return sy.local_var(sy.unwrap_move(e))

        def taint_of(e, taints):
            """oldest epoch of a buffer observation the expression depends on, else None"""
            d = dict(taints)
            eps = []
            for x in tu.walk(e):
                if 'id' not in x:
                    continue
                if x['id'] in d:
                    eps.append(d[x['id']])
                if x.get('kind') == 'DeclRefExpr' and x.get('referencedDecl', {}).get('id') in d:
                    eps.append(d[x['referencedDecl']['id']])
            return min(eps) if eps else None

        def loop_of(n):
            p = tu.par(n)
            hops = 0
            while p is not None and hops < 40 and p.get('kind') not in ('ForStmt', 'WhileStmt', 'DoStmt', 'CXXForRangeStmt'):
                if p.get('kind') in ('FunctionDecl', 'CXXMethodDecl', 'LambdaExpr'):
                    return None
                p = tu.par(p)
                hops += 1
            if p is None or p.get('kind') not in ('ForStmt', 'WhileStmt', 'DoStmt', 'CXXForRangeStmt'):
                return None
            return p

        def is_element_handout(n):
            """local variable L if n is `L.push_back/emplace_back(<expression over the buffer>)`"""
            if n.get('kind') != 'CXXMemberCallExpr':
                return None
            s_, obj, args = tu.call_parts(n)
            v = sy.local_var(obj) if obj is not None else None
            if v is None or last(s_.get('q')) not in APPEND or not args:
                return None
            if sy.mentions_field(args[0], fld):
                return v
            av = sy.local_var(sy.unwrap_move(args[0]))          # the loop variable of `for (auto &x : buffer)`
            d = tu.node(av) if av is not None else None
            lp = tu.par(tu.par(d)) if d is not None and tu.par(d) is not None else None
            if lp is not None and lp.get('kind') == 'CXXForRangeStmt' and any(sy.mentions_field(x, fld) for x in tu.kids(lp)[:-1]):
                return v
            return None

        # element-wise hand-out loops (found on the AST of consume() and of the helpers it calls): loop statement -> local vector.
        # They are classified when the loop condition is evaluated, so that the zero-trip path is classified too.
        xfer_loops = {}
        for fn in inl.reachable_fns(f):
            for x in tu.walk(tu.body(fn)) if tu.body(fn) is not None else ():
                if 'id' in x and x.get('kind') == 'CXXMemberCallExpr':
                    v = is_element_handout(x)
                    lp = loop_of(x) if v is not None else None
                    if lp is not None:
                        xfer_loops[lp['id']] = v

        def loop_bound(p, st):
            """'all' / 'stale' / None: what the loop statement p iterates over"""
            epoch, taints = st[6], st[7]
            ks = tu.kids(p)
            if p['kind'] == 'CXXForRangeStmt':
                return 'all' if any(sy.mentions_field(x, fld) for x in ks[:-1]) else None
            conds = [x for x in (ks[:-1] if p['kind'] != 'DoStmt' else ks[1:])
                     if x.get('kind') != 'DeclStmt' and x.get('type', {}).get('qualType') == 'bool']
            if not conds:
                return None
            c = conds[0]
            t = taint_of(c, taints)
            direct = any(buffer_call(tu, sy, x, fld) is not None for x in tu.walk(c) if 'id' in x)
            if t is not None and t < epoch:
                return 'stale'
            if direct or t == epoch:
                return 'all'
            return None

        def whole_range(a, b):
            """(buffer.begin(), buffer.end()), each possibly wrapped in std::make_move_iterator / an iterator conversion"""
            def it(x):
                x = tu.strip(x, casts=True)
                for _ in range(4):
                    if x is None:
                        return None
                    if x.get('kind') == 'CallExpr' and tu.sd(x).get('q') == 'std::make_move_iterator' and len(tu.kids(x)) == 2:
                        x = tu.strip(tu.kids(x)[1], casts=True)
                    elif x.get('kind') in ('CXXConstructExpr', 'CXXTemporaryObjectExpr') and len(tu.kids(x)) == 1:
                        x = tu.strip(tu.kids(x)[0], casts=True)
                    else:
                        break
                bc_ = buffer_call(tu, sy, x, fld) if x is not None else None
                return bc_[0] if bc_ is not None else None
            return it(a) in ('begin', 'cbegin') and it(b) in ('end', 'cend')

        def classify_return(e, st):
            """(what a returned expression hands out: 'contents' | 'stale' | 'other' | None = not recognised, moved the buffer out?)
            holders / stale also contain the call expressions of followed helpers and closures that returned such a value"""
            holders, stale = st[1], st[8]
            x = tu.strip(e) if e is not None else None
            if x is None:
                return 'other', False

            def of(idv):
                return 'contents' if idv in holders else 'stale' if idv in stale else None
            if x.get('kind') == 'CXXConstructExpr' and len(tu.kids(x)) == 1:
                a0 = tu.kids(x)[0]
                if is_buffer(tu, sy, a0, fld):
                    return 'contents', is_move(tu, sy, x)
                v = var_of(a0)
                a1 = tu.strip(sy.unwrap_move(a0))
                if v is not None:
                    return of(v) or 'other', False
                if a1 is not None and of(a1.get('id')):
                    return of(a1['id']), False
            v = var_of(x)
            if v is not None:
                return of(v) or 'other', False
            if of(x.get('id')):
                return of(x['id']), False
            if sy.mentions_field(x, fld):
                return None, False
            return 'other', False

        def transfer(blk, i, e, st):
            bufst, holders, fresh, ret, locks, known, epoch, taints, stale, branched = st
            ev = sy.event(e)
            n = tu.node(e[1]) if e[0] == 'S' else None
            if ev is not None and ev[0] in LOCK_EVENTS:
                locks2, known = lock_step(sy, BUF, T, locks, known, ev, n, found, R2)
                if LockState.holds(locks2, mutex) and not LockState.holds(locks, mutex):
                    epoch = min(epoch + 1, 4)
                return [(bufst, holders, fresh, ret, locks2, known, epoch, taints, stale, branched)]
            if n is None:
                return [st]
            k = n.get('kind')
            if own_call(tu, n, BUF):
                found.und(R2, 'consume() delegates to the member %s(), whose body is not available: not modelled' % own_call(tu, n, BUF), n)
            # exception safety of the hand-out: once the content has left the buffer and lives only in a local (or the return
            # value), an operation that allocates by contract may throw, and unwinding destroys the whole batch
            if holders and bufst == 'empty' and inl.depth == 0:
                alloc = None
                if k == 'CXXNewExpr':
                    alloc = 'operator new'
                elif k == 'CXXMemberCallExpr':
                    s_, obj_, _a = tu.call_parts(n)
                    if (s_.get('rec') or '').startswith('std::vector') and last(s_.get('q')) in ALLOCATING:
                        alloc = '%s.%s()' % (tu.show(obj_) if obj_ is not None else '?', last(s_.get('q')))
                elif k in ('CXXConstructExpr', 'CXXTemporaryObjectExpr') and (tu.sd(n).get('rec') or '').startswith('std::vector') \
                        and tu.kids(n) and not is_move(tu, sy, n) and 'allocator' not in (tu.sd(n).get('fty') or '')[:40]:
                    alloc = 'construction of a std::vector with content'
                if alloc is not None:
                    found.viol(R2, FN, 'allocation-after-move-out', 'consume() calls %s after the content has been moved out of the '
                               'buffer into a local and before it is returned: this can throw (std::bad_alloc / std::length_error), '
                               'the local is destroyed during unwinding and the whole batch is lost - it appears in no consume() at '
                               'all. Allocate before the content leaves the buffer (or swap with a pre-sized vector)' % alloc, n)
            if k == 'DeclStmt':
                for v in tu.kids(n):
                    if v.get('kind') != 'VarDecl':
                        continue
                    ks = tu.kids(v)
                    vt = (v.get('type', {}).get('desugaredQualType') or v.get('type', {}).get('qualType', ''))
                    if vt.rstrip().endswith('&'):
                        if not v.get('isImplicit') and ks and is_buffer(tu, sy, ks[-1], fld):
                            found.und(R2, 'a local reference is bound to the buffer: accesses through it are not modelled', n)
                        continue            # (the implicit __range reference of a range-for is handled with its loop)
                    if not vt.replace('const ', '').startswith('std::vector<'):
                        t = taint_of(ks[-1], taints) if ks else None
                        if t is not None:
                            taints = frozenset(set(taints) | {(v['id'], t)})
                        continue
                    init = tu.strip(ks[-1]) if ks else None
                    if init is None or (init.get('kind') == 'CXXConstructExpr' and not tu.kids(init)):
                        fresh = frozenset(set(fresh) | {v['id']})
                    elif init.get('kind') == 'CXXConstructExpr' and len(tu.kids(init)) == 1 and is_buffer(tu, sy, tu.kids(init)[0], fld):
                        holders = frozenset(set(holders) | {v['id']})
                        if is_move(tu, sy, init):
                            bufst = 'empty'
                    elif init.get('kind') == 'CXXConstructExpr' and len([a_ for a_ in tu.kids(init) if (tu.strip(a_) or {}).get('kind') != 'CXXDefaultArgExpr']) == 2 \
                            and whole_range(tu.kids(init)[0], tu.kids(init)[1]):
                        holders = frozenset(set(holders) | {v['id']})      # vector(buffer.begin(), buffer.end()): every element
                    elif init is not None and sy.mentions_field(init, fld):
                        found.und(R2, 'local vector initialised from the buffer in a form that is not modelled', n)
                return [(bufst, holders, fresh, ret, locks, known, epoch, taints, stale, branched)]
            if k == 'BinaryOperator' and n.get('opcode') == '=':
                var = sy.local_var(tu.kids(n)[0])
                if var is not None:
                    t = taint_of(tu.kids(n)[1], taints)
                    keep = {p for p in taints if p[0] != var}
                    if t is not None:
                        keep.add((var, t))
                    return [(bufst, holders, fresh, ret, locks, known, epoch, frozenset(keep), stale, branched)]
            if k == 'ReturnStmt':
                ks = tu.kids(n)
                kind, moved = classify_return(ks[0] if ks else None, st)
                if kind is None:
                    if inl.depth == 0:
                        found.und(R2, 'return expression uses the buffer in a form that is not modelled', n)
                    kind = 'other'
                if moved:
                    bufst = 'empty'
                if inl.depth > 0:
                    # return of a followed helper / closure: its value reaches consume() through the call (see ConsumeHooks)
                    return [(bufst, holders, fresh, ret, locks, known, epoch, taints, stale, branched)]
                return [(bufst, holders, fresh, kind, locks, known, epoch, taints, stale, branched)]
            if k == 'CallExpr' and tu.sd(n).get('q') == 'std::swap':
                args = tu.kids(n)[1:]
                if len(args) == 2:
                    for a0, b0 in ((args[0], args[1]), (args[1], args[0])):
                        if is_buffer(tu, sy, a0, fld):
                            v = var_of(b0)
                            if v in fresh:
                                return [('empty', frozenset(set(holders) | {v}), frozenset(set(fresh) - {v}), ret, locks, known, epoch,
                                         taints, stale, branched)]
                            found.und(R2, 'swap of the buffer with something that is not a fresh empty local vector', n)
                return [st]
            bc = buffer_call(tu, sy, n, fld)
            if bc is not None:
                nm, args, const = bc
                if nm == 'swap' and args:
                    v = var_of(args[0])
                    if v in fresh:
                        return [('empty', frozenset(set(holders) | {v}), frozenset(set(fresh) - {v}), ret, locks, known, epoch, taints,
                                 stale, branched)]
                    found.und(R2, 'swap of the buffer with something that is not a fresh empty local vector', n)
                    return [st]
                if nm == 'clear':
                    if not holders and not stale and ret != 'contents':
                        found.viol(R2, FN, 'consume-loses-elements', 'consume() clears the buffer before its content was handed to the '
                                   'returned vector: pushed elements are lost', n)
                    return [('empty', holders, fresh, ret, locks, known, epoch, taints, stale, branched)]
                if nm in APPEND:
                    found.viol(R2, FN, 'mutates-buffer', 'consume() appends to the buffer', n)
                    return [st]
                if const and nm not in ELEMENT:
                    # an observation of the buffer (size(), empty(), ...) made in the current critical section
                    return [(bufst, holders, fresh, ret, locks, known, epoch, frozenset(set(taints) | {(n['id'], epoch)}), stale, branched)]
                if const or nm in NEUTRAL or nm in ELEMENT:
                    return [st]
                found.und(R2, 'consume() calls %s() on the buffer: not modelled' % nm, n)
                return [st]
            if n.get('kind') in ('CXXMemberCallExpr', 'CXXOperatorCallExpr'):
                s, obj, args = tu.call_parts(n)
                nm = last(s.get('q'))
                v = sy.local_var(obj) if obj is not None else None
                if v is not None and args and is_buffer(tu, sy, args[0], fld):
                    if nm == 'swap' and v in fresh:
                        return [('empty', frozenset(set(holders) | {v}), frozenset(set(fresh) - {v}), ret, locks, known, epoch, taints,
                                 stale, branched)]
                    if nm == 'operator=':
                        return [('empty' if is_move(tu, sy, n) else bufst, frozenset(set(holders) | {v}), frozenset(set(fresh) - {v}), ret,
                                 locks, known, epoch, taints, stale, branched)]
                    found.und(R2, 'local.%s(buffer): not modelled' % nm, n)
                    return [st]
                if is_element_handout(n) is not None and v not in holders and v not in stale:
                    # element-wise hand-out whose loop was not classified at its condition (no loop / range not recognised)
                    found.und(R2, 'elements of the buffer are handed out one by one and the range of the loop is not recognised', n)
            return [st]

        def refine(blk, si, st):
            if blk.term in xfer_loops:
                v = xfer_loops[blk.term]
                kind = loop_bound(tu.node(blk.term), st)
                bufst, holders, fresh, ret, locks, known, epoch, taints, stale, branched = st
                if kind == 'all' and v not in stale:
                    return [(bufst, frozenset(set(holders) | {v}), frozenset(set(fresh) - {v}), ret, locks, known, epoch, taints, stale,
                             branched)]
                if kind == 'stale':
                    return [(bufst, frozenset(set(holders) - {v}), frozenset(set(fresh) - {v}), ret, locks, known, epoch, taints,
                             frozenset(set(stale) | {v}), branched)]
                return [st]
            atom, _truth = sy.edge_truth(blk, si)
            if atom is not None and not st[9] and taint_of(atom, st[7]) is not None:
                return [st[:9] + (True,)]
            return [st]

        class ConsumeHooks(C12Hooks):
            def ret_value(self, e, st):
                kind, _moved = classify_return(e, st)
                if kind in ('contents', 'stale'):
                    return ('cls', kind)
                return taint_of(e, st[7])

            def post_call(self, n, cf, st, rv):
                if isinstance(rv, tuple) and rv[0] == 'cls':
                    # the call expression stands for the vector the helper / closure returned
                    if rv[1] == 'contents':
                        return [(st[0], frozenset(set(st[1]) | {n['id']})) + st[2:]]
                    return [st[:8] + (frozenset(set(st[8]) | {n['id']}),) + st[9:]]
                if rv is not None:
                    return [st[:7] + (frozenset(set(st[7]) | {(n['id'], rv)}),) + st[8:]]
                return [st]

        res, outs = inl.explore(f, [('full', frozenset(), frozenset(), None, frozenset(), frozenset(), 0, frozenset(), frozenset(), False)],
                                transfer, refine, ConsumeHooks(sy, found, R2, params))
        for (st, _rv, via) in outs:
            bufst, holders, fresh, ret, locks, known, epoch, taints, stale, branched = st
            at = exit_at(res, via)
            if ret is None:
                found.und(R2, 'consume() has a path without a return statement', None)
            elif ret == 'contents' and bufst == 'full':
                found.viol(R2, FN, 'consume-keeps-elements', 'consume() returns a copy of the buffer but leaves the elements in it: the '
                           'next consume() delivers them again (duplication)', None, at)
            elif ret == 'stale' and bufst == 'empty':
                found.viol(R2, FN, 'consume-drops-late-elements', 'consume() hands out only the elements counted in an earlier critical '
                           'section, then removes *all* elements in a later one: what a producer pushed between the two critical '
                           'sections is destroyed without ever appearing in a batch', None, at)
            elif ret == 'stale':
                found.und(R2, 'consume() hands out a range selected in an earlier critical section and does not clear(): the removal '
                          'is not modelled', None)
            elif ret != 'contents' and bufst == 'empty':
                found.viol(R2, FN, 'consume-loses-elements', 'consume() empties the buffer but does not return its content', None, at)
            elif ret != 'contents' and not branched:
                found.viol(R2, FN, 'consume-returns-nothing', 'consume() does not return the content of the buffer', None, at)
            # ret 'other' on a path that branched on an observation of the buffer and left it untouched (e.g. early return when
            # empty) neither loses nor duplicates anything
        emit(ctx, tu, g, res, found, inst, (R2,), tu.fn_loc(f), {R2: 'whole content handed to the returned vector, buffer left empty'})
        return

    # observers: no mutation
    def transfer(blk, i, e, st):
        if i == 0:
            cur['at'] = (blk.id, st)
        n = tu.node(e[1]) if e[0] == 'S' else None
        if n is None:
            return [st]
        bc = buffer_call(tu, sy, n, fld)
        if bc is not None:
            nm, args, const = bc
            if const or nm in NEUTRAL:
                return [st]
            if nm in APPEND or nm in DESTRUCTIVE or nm in ('insert', 'emplace'):
                found.viol(R2, FN, 'mutates-buffer', '%s() calls %s() on the buffer: only push_back may add and only consume() may remove '
                           'elements' % (name, nm), n)
            else:
                found.und(R2, 'non-const call %s() on the buffer in %s(): not modelled' % (nm, name), n)
            return [st]
        if n.get('kind') == 'CallExpr' and tu.sd(n).get('q') in ('std::move', 'std::swap') and \
                any(is_buffer(tu, sy, a, fld) for a in tu.kids(n)[1:]):
            found.viol(R2, FN, 'mutates-buffer', '%s() moves from / swaps the buffer' % name, n)
        return [st]

    res, _outs = inl.explore(f, [0], transfer, None, hooks)
    emit(ctx, tu, g, res, found, inst, (R2,), tu.fn_loc(f), {R2: 'does not mutate the buffer'})


# ======================================================================================================
#  R-C12-3 update(), R-C12-4 assignment
# ======================================================================================================
def flag_token(tu, sy, atom, flag):
    """True if the branch atom is a read of the flag member (plain read or atomic load)"""
    if atom is None:
        return False
    if sy.field(atom) == flag and sy.base_is_this(atom):
        return True
    a = sy.atomic_op(atom)
    return a is not None and a['op'] == 'load' and a['field'] == flag and sy.base_is_this(a['obj'])


def check_update(ctx, tu, sy, f, counts):
    T = TABLE[VAL]
    g = tu.cfg(f)
    inl = inliner(tu, T)
    found = Found(T['file'], inl)
    cur = {}
    FN = fn_short(f)
    FLAG, QUEUED, CURRENT, mutex = (VAL, 'newValue'), (VAL, 'queuedValue'), (VAL, 'currentValue'), (VAL, T['mutex'])
    counts[R3] += 1

    def release(st, node):
        locks, known, flag, inst, iscope, rscope, vars_ = st
        if iscope and not rscope:
            found.viol(R3, FN, 'flag-not-reset-with-install', 'the lock scope that installs the queued value ends without resetting the '
                       'flag: an assignment made after the scope is lost when the flag is reset later (or the next update() installs '
                       'a moved-from value)', node)
        if rscope and not iscope:
            found.viol(R3, FN, 'flag-reset-without-install', 'the flag is reset in a lock scope that does not install the queued value: '
                       'that value is never delivered', node)
        return (locks, known, flag, inst, False, False, vars_)

    def installs_later_may_throw(reset_node):
        """name of a potentially throwing install (currentValue <- queuedValue) in this function, if the function has one"""
        for fn in inl.reachable_fns(f):
            for _b, _i, x in tu.cfg(fn).stmts():
                w = sy.plain_write(x) if x.get('kind') in ('BinaryOperator', 'CXXOperatorCallExpr') else None
                if w is not None and w[0] == CURRENT and sy.mentions_field(w[2], QUEUED) and x.get('kind') == 'CXXOperatorCallExpr' and \
                        not fty_noexcept(tu.sd(x).get('fty')):
                    return tu.sd(x).get('q') or 'payload assignment'
        return None

    def flag_value(e, vars_):
        """abstract value of a boolean expression: True / False (constant), ('flag', polarity) = the value of the flag as this
        path observed it, or None.  A read of the flag made after update() has reset it yields false (the reset is the last
        write of this thread; a concurrent new assignment could only make the verdict depend on timing)."""
        cb = sy.const_bool(e)
        if cb is not None:
            return cb
        pol, atom = sy.cond_atom(e)
        if atom is None:
            return None
        d = dict(vars_)
        if flag_token(tu, sy, atom, FLAG):
            return (not pol) if d.get('$reset') else ('flag', pol)
        tid = sy.local_var(atom) or atom.get('id')
        v = d.get(tid)
        if isinstance(v, bool):
            return v if pol else (not v)
        if isinstance(v, tuple):
            return ('flag', v[1] if pol else (not v[1]))
        return None

    def concrete(v, flag):
        if isinstance(v, tuple):
            return None if flag is None else (flag if v[1] else (not flag))
        return v

    # state: (locks, known, flag, installed, inst_in_scope, reset_in_scope, boolvars)
    #   boolvars: local bool / helper call -> True | False | ('flag', polarity) | None;  '$reset' -> the flag was reset on this path
    def transfer(blk, i, e, st):
        if i == 0:
            cur['at'] = (blk.id, st)
        locks, known, flag, inst, iscope, rscope, vars_ = st
        ev = sy.event(e)
        n = tu.node(e[1]) if e[0] == 'S' else None
        if ev is not None and ev[0] in LOCK_EVENTS:
            locks2, known = lock_step(sy, VAL, T, locks, known, ev, n, found, R3)
            st2 = (locks2, known, flag, inst, iscope, rscope, vars_)
            if LockState.holds(locks, mutex) and not LockState.holds(locks2, mutex):
                st2 = release(st2, n)
            return [st2]
        if n is None:
            return [st]
        k = n.get('kind')
        if own_call(tu, n, VAL):
            found.und(R3, 'update() delegates to the member %s(): not modelled' % own_call(tu, n, VAL), n)
        if k == 'DeclStmt':
            d = dict(vars_)
            for v in tu.kids(n):
                if v.get('kind') == 'VarDecl' and v.get('type', {}).get('qualType', '').replace('const ', '') == 'bool':
                    d[v['id']] = flag_value(tu.kids(v)[-1], vars_) if tu.kids(v) else None
            return [(locks, known, flag, inst, iscope, rscope, frozenset(d.items()))]
        if k == 'BinaryOperator' and n.get('opcode') == '=':
            var = sy.local_var(tu.kids(n)[0])
            if var is not None and var in dict(vars_):
                d = dict(vars_)
                d[var] = flag_value(tu.kids(n)[1], vars_)
                return [(locks, known, flag, inst, iscope, rscope, frozenset(d.items()))]
        if ev is not None and ev[0] == 'rmw' and ev[1] == FLAG:
            if ev[2] in ('operator--', 'fetch_sub', 'operator-='):
                found.viol(R3, FN, 'pending-count-decremented', 'update() lowers the pending indicator by one (%s) instead of resetting it: '
                           'the queued slot holds only the latest of k assignments, so after k > 1 assignments and this one install the '
                           'indicator is still non-zero - the next update() returns true and installs the moved-from slot, a value '
                           'nobody assigned' % ev[2], ev[3])
                return [(locks, known, flag, inst, iscope, True, vars_)]
            return [st]         # (other read-modify-writes on the indicator: left to R-C12-1 as before)
        if ev is not None and ev[0] == 'store':
            _k, fld, val, order, node = ev
            if fld == FLAG:
                if val is False:
                    if not inst and installs_later_may_throw(node):
                        found.viol(R3, FN, 'flag-reset-before-install', 'update() lowers the flag before it installs the queued value, and '
                                   'the install can throw (%s): when it does, the flag is already down although currentValue was not '
                                   'updated - the value is never delivered (the producer has stopped: the consumer never obtains the '
                                   'last value)' % installs_later_may_throw(node), node)
                    # `flag` keeps what the path *observed*; our own reset does not change that
                    d = dict(vars_)
                    d['$reset'] = True
                    return [(locks, known, flag, inst, iscope, True, frozenset(d.items()))]
                if val is True:
                    found.viol(R3, FN, 'flag-set-by-update', 'update() stores true to the pending flag instead of resetting it: the flag '
                               'stays raised after the install, so the next update() returns true again and installs the moved-from '
                               'slot - a value nobody assigned', node)
                    return [st]
                found.und(R3, 'update() stores something other than false to the flag', node)
                return [st]
            if fld == CURRENT:
                w = sy.plain_write(node)
                if w is not None and sy.mentions_field(w[2], QUEUED):
                    if flag is not True:
                        found.viol(R3, FN, 'install-without-flag', 'update() installs queuedValue on a path where the flag was not observed '
                                   'set: the consumer can receive a stale or moved-from value', node)
                    return [(locks, known, flag, True, True, rscope, vars_)]
                found.und(R3, 'update() writes currentValue from something other than queuedValue', node)
                return [st]
            return [st]
        if is_slot_swap(tu, sy, n):
            if flag is not True:
                found.viol(R3, FN, 'install-without-flag', 'update() swaps the queued slot in on a path where the flag was not observed set: '
                           'the consumer can receive a stale value', n)
            return [(locks, known, flag, True, True, rscope, vars_)]
        if k == 'CallExpr' and tu.sd(n).get('q') == 'std::swap':
            args = tu.kids(n)[1:]
            fs = {sy.field(a) for a in args}
            if fs == {CURRENT, QUEUED}:
                if flag is not True:
                    found.viol(R3, FN, 'install-without-flag', 'update() installs queuedValue on a path where the flag was not observed set',
                               n)
                return [(locks, known, flag, True, True, rscope, vars_)]
        if k == 'ReturnStmt':
            if inl.depth > 0:
                return [st]             # return of a followed helper (its value reaches update() through the call hooks)
            ks = tu.kids(n)
            rx = tu.strip(ks[0], casts=True) if ks else None
            if rx is not None and rx.get('kind') == 'ConditionalOperator' and flag is not None:
                c_, a_, b_ = tu.kids(rx)[:3]
                cp, ca = sy.cond_atom(c_)
                if ca is not None and flag_token(tu, sy, ca, FLAG):
                    rx = a_ if (flag if cp else (not flag)) else b_       # the arm this path evaluated
            v = concrete(flag_value(rx, vars_), flag) if rx is not None else None
            if v is None:
                found.und(R3, 'return value of update() is not a constant / a local with a known constant value on this path', n)
            elif v and not inst:
                found.viol(R3, FN, 'returns-true-without-install', 'update() returns true on a path that did not install a new value', n)
            elif not v and inst:
                found.viol(R3, FN, 'returns-false-after-install', 'update() returns false on a path that installed a new value', n)
            if not inst and flag is True:
                found.viol(R3, FN, 'flag-set-not-installed', 'update() observed the flag set but returns without installing the queued '
                           'value', n)
            if not inst and flag is None:
                found.viol(R3, FN, 'no-flag-test', 'update() returns without installing on a path that never tested the flag', n)
            return [st]
        return [st]

    def refine(blk, si, st):
        term = tu.node(blk.term) if blk.term else None
        if term is not None and term.get('kind') == 'SwitchStmt' and blk.cond:
            # switch (<flag>) { case <constant>: ... }: each edge fixes the value the flag was seen with
            _p, catom = sy.cond_atom(tu.node(blk.cond))
            cur_g = tu.cfg(inl.stack[-1]) if inl.stack else g
            tgt = cur_g.blocks.get(blk.succ[si]) if blk.succ[si] is not None else None
            lab = tu.node(tgt.label) if tgt is not None and tgt.label else None
            if catom is not None and flag_token(tu, sy, catom, FLAG) and lab is not None and lab.get('kind') == 'CaseStmt' and tu.kids(lab):
                cv = tu.sd(tu.kids(lab)[0]).get('cv')
                if cv is not None:
                    return [st[:2] + (str(cv) != '0',) + st[3:]]
            return [st]
        atom, truth = sy.edge_truth(blk, si)
        if atom is None:
            return [st]
        locks, known, flag, inst, iscope, rscope, vars_ = st
        if flag_token(tu, sy, atom, FLAG):
            return [(locks, known, truth, inst, iscope, rscope, vars_)]
        tid = sy.local_var(atom) or atom.get('id')
        if tid is not None and tid in dict(vars_):
            v = dict(vars_)[tid]
            if isinstance(v, tuple):        # a local / helper result that holds the observed flag: branching on it observes it
                obs = truth if v[1] else (not truth)
                if flag is not None and flag != obs:
                    return []
                return [(locks, known, obs, inst, iscope, rscope, vars_)]
            if v is not None and v != truth:
                return []
        return [st]

    class UpdateHooks(C12Hooks):
        def ret_value(self, e, st):
            return flag_value(e, st[6])

        def post_call(self, n, cf, st, rv):
            if rv is not None:
                d = dict(st[6])
                d[n['id']] = rv
                return [st[:6] + (frozenset(d.items()),)]
            return [st]

    res, outs = inl.explore(f, [(frozenset(), frozenset(), None, False, False, False, frozenset())], transfer, refine,
                            UpdateHooks(sy, found, R3))
    for (st, _rv, via) in outs:
        if st[4] or st[5]:
            release(st, None)
    inst_name = '%s %s' % (f['q'].replace('rkcommon::utility::', ''), f['fty'])
    emit(ctx, tu, g, res, found, inst_name, (R3,), tu.fn_loc(f),
         {R3: 'returns true exactly on the installing path; installs iff the flag was observed set; flag reset with the install'})


def check_flag_init(ctx, tu, sy, f, counts):
    """R-C12-3 (initial state): every constructor leaves the pending flag false.  An uninitialised flag (std::atomic<bool> and
    bool have trivial default construction) or a flag that starts set makes the first update() install a value nobody assigned."""
    T = TABLE[VAL]
    g = tu.cfg(f)
    FLAG = (VAL, 'newValue')
    counts[R3] += 1
    inl = inliner(tu, T)
    found = Found(T['file'], inl)
    FN = 'TransactionalValue::TransactionalValue'

    def init_value(e):
        init = tu.node(e[1])
        if init is None:
            return 'uninit'
        k = init.get('kind')
        if k == 'CXXDefaultInitExpr':
            fd = tu.node(e[2])
            lits = [x for x in tu.walk(fd) if x.get('kind') in ('CXXBoolLiteralExpr', 'IntegerLiteral')] if fd is not None else []
            if len(lits) == 1:
                v_ = lits[0].get('value')
                return bool(v_) if lits[0]['kind'] == 'CXXBoolLiteralExpr' else str(v_) != '0'
            cvs = [tu.sd(x).get('cv') for x in tu.walk(fd) if 'id' in x and x.get('kind') != 'FieldDecl' and tu.sd(x).get('cv') is not None] \
                if fd is not None else []
            if cvs:
                return str(cvs[0]) != '0'       # an enumerator / constant expression: zero = nothing pending
            return None
        x = tu.strip(init, casts=True)
        while x is not None and x.get('kind') in ('InitListExpr', 'CXXConstructExpr', 'CXXTemporaryObjectExpr'):
            ks = tu.kids(x)
            if not ks:
                # default construction / empty braces: std::atomic<bool>() is trivial in C++11..17 (indeterminate); `{}` on a
                # bool value-initialises
                return 'uninit' if x.get('kind') != 'InitListExpr' else False
            if len(ks) != 1:
                return None
            x = tu.strip(ks[0], casts=True)
        return sy.const_bool(x) if x is not None else None

    # state: 'uninit' | True | False | None (unknown)
    def transfer(blk, i, e, st):
        if e[0] == 'I' and tu.__dict__.get('_c12_names', {}).get(e[3], e[3]) == FLAG[1]:
            return [init_value(e)]
        ev = sy.event(e)
        if ev is not None and ev[0] == 'store' and ev[1] == FLAG:
            return [ev[2]]
        return [st]

    res, outs = inl.explore(f, ['uninit'], transfer, None, C12Hooks(sy, found, R3))
    for (st, _rv, via) in outs:
        if st is False:
            continue
        at = exit_at(res, via)
        if st == 'uninit':
            found.viol(R3, FN, 'flag-uninitialised', 'this constructor leaves the pending flag newValue uninitialised (no default member '
                       'initialiser, not in the initialiser list, not assigned in the body; default construction of a std::atomic<bool> '
                       '/ bool is trivial): in recycled storage it reads true, and the first update() returns true and installs a '
                       'queuedValue nobody assigned', None, at)
        elif st is True:
            found.viol(R3, FN, 'flag-initially-set', 'this constructor leaves the pending flag newValue set: the first update() returns '
                       'true and installs a queuedValue nobody assigned', None, at)
        else:
            found.und(R3, 'initial value of the pending flag is not a constant', None)
    inst = '%s %s' % (f['q'].replace('rkcommon::utility::', ''), f['fty'])
    emit(ctx, tu, g, res, found, inst, (R3,), tu.fn_loc(f), {R3: 'pending flag initialised to false'})


def check_assign(ctx, tu, sy, f, counts):
    T = TABLE[VAL]
    g = tu.cfg(f)
    inl = inliner(tu, T)
    found = Found(T['file'], inl)
    cur = {}
    FN = fn_short(f)
    FLAG, QUEUED, mutex = (VAL, 'newValue'), (VAL, 'queuedValue'), (VAL, T['mutex'])
    params = {p['id'] for p in f.get('params', [])[:1]}      # the assigned value (+ helper parameters bound to it)
    counts[R4] += 1

    def release(st, node):
        locks, known, q, fl, done = st
        if q and fl == 'stale':
            found.viol(R4, FN, 'flag-raise-skipped-on-stale-sample', 'the assignment stores the value into queuedValue but raises the flag '
                       'only when a sample of the flag taken before %s was acquired read false. Between that sample and the lock the '
                       'consumer\'s update() can take the previous value and lower the flag: the producer then leaves the new value in '
                       'queuedValue with the flag down, update() keeps returning false and the consumer never obtains it (lost update; '
                       'the last value is lost for good when the producer stops). Sample the flag inside the critical section, or '
                       'raise it unconditionally' % T['mutex'], stale_at.get('n', node))
            return (locks, known, False, False, True)
        if fl == 'stale':
            fl = False
        if q and not fl:
            found.viol(R4, FN, 'flag-not-set', 'assignment stores the value into queuedValue but the lock scope ends without setting the '
                       'flag: the consumer never picks the value up', node)
        if fl is True and not q:
            found.viol(R4, FN, 'flag-without-value', 'assignment sets the flag in a lock scope that does not store the value', node)
        return (locks, known, False, False, done or bool(q and fl is True))

    throwers = []       # value stores of this assignment that can throw
    arefs = slot_refs(tu, sy, inl.reachable_fns(f))
    loads = {}          # flag load node id -> was the mutex held at the load?
    samples = {}        # local bool initialised from a flag load -> was the mutex held at the load?
    stale_at = {}

    def refine(blk, si, st):
        """a branch on the value of the flag: read true under the mutex, the flag is up and stays up until the lock is released
        (update() lowers it under the same mutex) - the value stored in this scope is announced; read true in a sample taken
        before the lock was acquired, nothing is known about the flag now"""
        locks, known, q, fl, done = st
        atom, truth = sy.edge_truth(blk, si)
        atom = tu.strip(atom, casts=True) if atom is not None else None
        if atom is None or not truth or fl is True:
            return [st]
        locked = None
        if atom.get('kind') == 'DeclRefExpr' and atom.get('referencedDecl', {}).get('id') in samples:
            locked = samples[atom['referencedDecl']['id']]
        elif atom.get('id') in loads:
            locked = loads[atom['id']] and LockState.holds(locks, mutex)
            if not loads[atom['id']]:
                return [st]             # tested where it was read, outside the lock: says nothing
        if locked is None:
            return [st]
        if locked and LockState.holds(locks, mutex):
            return [(locks, known, q, True, done)]
        if not locked and LockState.holds(locks, mutex):
            stale_at['n'] = tu.node(blk.cond)
            return [(locks, known, q, 'stale', done)]
        return [st]

    def may_throw(node):
        """can the value store leave by an exception?  (built-in assignment cannot; a call can unless declared noexcept)"""
        if node.get('kind') in ('CXXOperatorCallExpr', 'CXXMemberCallExpr', 'CallExpr'):
            return not fty_noexcept(tu.sd(node).get('fty'))
        return False

    # state: (locks, known, queued_in_scope, flagged_in_scope, done)
    def transfer(blk, i, e, st):
        if i == 0:
            cur['at'] = (blk.id, st)
        locks, known, q, fl, done = st
        ev = sy.event(e)
        n = tu.node(e[1]) if e[0] == 'S' else None
        if ev is not None and ev[0] == 'load' and ev[1] == FLAG and isinstance(ev[-1], dict) and 'id' in ev[-1]:
            loads[ev[-1]['id']] = LockState.holds(locks, mutex)
        if n is not None and n.get('kind') == 'DeclStmt':
            for v in tu.kids(n):        # a local copy of the argument stands for the argument
                if v.get('kind') == 'VarDecl' and tu.kids(v) and mentions_any(sy, tu.kids(v)[-1], params):
                    params.add(v['id'])
                if v.get('kind') == 'VarDecl' and tu.kids(v) and (tu.strip(tu.kids(v)[-1], casts=True) or {}).get('id') in loads and \
                        'const' in (v.get('type', {}).get('qualType') or ''):
                    samples[v['id']] = loads[tu.strip(tu.kids(v)[-1], casts=True)['id']]
        if ev is not None and ev[0] in LOCK_EVENTS:
            locks2, known = lock_step(sy, VAL, T, locks, known, ev, n, found, R4)
            st2 = (locks2, known, q, fl, done)
            if LockState.holds(locks, mutex) and not LockState.holds(locks2, mutex):
                st2 = release(st2, n)
            return [st2]
        if own_call(tu, n, VAL):
            found.und(R4, 'assignment delegates to the member %s(): not modelled' % own_call(tu, n, VAL), n)
        if ev is not None and ev[0] == 'rmw' and ev[1] == FLAG and ev[2] in ('operator++', 'fetch_add', 'operator+='):
            ev = ('store', FLAG, True, 5, ev[3])       # a counting indicator is raised by an increment
        gw = generic_write(tu, n) if (dbv_member(tu) is not None and (ev is None or ev[0] == 'call')) else None
        if gw is not None and slot_of(tu, sy, gw[0], arefs) == 'queued':
            ev = ('store', QUEUED, None, 5, n)
        if ev is not None and ev[0] == 'store':
            _k, fld, val, order, node = ev
            if fld == FLAG:
                if val is True:
                    dframes = [x for x in inl.stack if x.get('dtor')]
                    if dframes:
                        # raised by the destructor of a scope object: that destructor also runs when the scope is left by an
                        # exception, i.e. when the value store did not complete
                        dg = tu.cfg(dframes[-1])
                        branching = any(len([t for t in b_.succ if t is not None]) > 1 for b_ in dg.blocks.values())
                        if branching:
                            found.und(R4, 'the flag is raised conditionally inside the destructor %s: not modelled' % dframes[-1]['q'], node)
                        elif throwers:
                            found.viol(R4, FN, 'flag-raised-on-unwind', 'the flag is raised by the destructor of a scope object (%s), which '
                                       'also runs during stack unwinding: when the value store %s throws, the flag is set although '
                                       'queuedValue was not assigned (it still holds the moved-from remains of the previous update()); '
                                       'the next update() returns true and installs a value nobody assigned'
                                       % (dframes[-1]['q'].replace('rkcommon::utility::', ''), throwers[0]), node)
                    return [(locks, known, q, True, done)]
                found.und(R4, 'assignment stores something other than true to the flag', node)
            elif fld == QUEUED:
                w = sy.plain_write(node)
                if w is None and generic_write(tu, node) is not None:
                    w = (QUEUED,) + generic_write(tu, node)
                if w is not None and params and mentions_any(sy, w[2], params):
                    if may_throw(node):
                        throwers.append('(%s)' % (tu.sd(node).get('q') or 'payload assignment'))
                    if fl is True and not q and may_throw(node):
                        found.viol(R4, FN, 'flag-raised-before-value-stored', 'the flag is already raised when the value is stored into '
                                   'queuedValue, and this store can throw (%s): if it does, the producer leaves the critical section with '
                                   'the flag set over a slot that still holds the moved-from remains of the previous update(); the next '
                                   'update() returns true and installs a value nobody assigned'
                                   % (tu.sd(node).get('q') or 'payload assignment'), node)
                    return [(locks, known, True, fl, done)]
                found.und(R4, 'queuedValue is written from something other than the argument', node)
        return [st]

    res, outs = inl.explore(f, [(frozenset(), frozenset(), False, False, False)], transfer, refine, C12Hooks(sy, found, R4, params))
    for (st, _rv, via) in outs:
        if g.blocks[via].noret:
            continue
        if st[2] or st[3]:
            st = release(st, None)
        if not st[4]:
            found.viol(R4, FN, 'nothing-queued', 'a path through the assignment does not queue the value and set the flag within one lock '
                       'scope', None, exit_at(res, via))
    inst = '%s %s' % (f['q'].replace('rkcommon::utility::', ''), f['fty'])
    emit(ctx, tu, g, res, found, inst, (R4,), tu.fn_loc(f), {R4: 'argument stored into queuedValue and flag set inside one lock scope'})


class _Probe:
    """collects verdicts without reporting them (used to find out where a member is written under the lock)"""

    def __init__(self):
        self.bad = []

    def violation(self, rule, instance, why, loc='?', key=None, path=None):
        self.bad.append(why)

    def undecided(self, rule, instance, why, loc='?'):
        self.bad.append(why)

    def ok(self, *a, **k):
        pass


def atomic_mirror(tu, sy, rec, T, member):
    """is the atomic data member written (store / read-modify-write) inside a lock scope of the class mutex in at least one
    member function?"""
    T2 = dict(T, guarded=tuple(T['guarded']) + (member,))
    for f in tu.functions.values():
        if f['dep'] or f.get('rec') != rec or tu.cfg(f) is None or f.get('ctor') or f.get('dtor'):
            continue
        writes = False
        for b, i, n in tu.cfg(f).stmts():
            ev = sy.event(['S', n['id']])
            if ev is not None and ev[0] in ('store', 'rmw') and ev[1] is not None and ev[1] == (rec, member):
                writes = True
        if not writes:
            continue
        probe = _Probe()
        check_guarded(probe, tu, sy, rec, T2, f, {R1: 0})
        if not any(member in w for w in probe.bad):
            return True
    return False


SIDES = {
    BUF: {'push_back': 'producer', 'consume': 'consumer'},
    VAL: {'operator=': 'producer', 'ref': 'consumer', 'get': 'consumer', 'update': 'consumer'},
}


def access_kind(tu, sy, n):
    """how the member expression n is used: 'load' / 'store' / 'rmw' / 'rmw-unused' (atomic), 'read' / 'write' (plain)"""
    user = nearest_user(tu, n)
    a = sy.atomic_op(user) if user is not None else None
    if a is not None:
        kind = {'load': 'load', 'store': 'store'}.get(a['op'], 'rmw')
        if kind == 'rmw':
            pu = tu.par(user)
            if pu is not None and pu.get('kind') in ('CompoundStmt', 'ExprWithCleanups'):
                kind = 'rmw-unused'         # result discarded: a pure write
        return kind
    if user is not None and ((user.get('kind') in ('BinaryOperator', 'CompoundAssignOperator') and
                              (user.get('opcode') == '=' or user.get('kind') == 'CompoundAssignOperator') and
                              tu.strip(tu.kids(user)[0], casts=True) is n) or
                             (user.get('kind') == 'UnaryOperator' and user.get('opcode') in ('++', '--', '&'))):
        return 'write'
    return 'read'


def uninstantiated_members(tu, rec):
    """member function patterns of the class template that the driver does not instantiate (new members the driver does not
    know, members that do not compile when instantiated): they have an AST but no CFG"""
    inst = {f.get('pat') for f in tu.functions.values() if not f['dep']}
    return [f for f in tu.functions.values() if f['dep'] and f.get('rec') == rec and f['id'] not in inst
            and not f.get('ctor') and not f.get('dtor') and tu.body(f) is not None]


def helper_lock_classes(tu, T):
    """names of classes (defined anywhere in the unit) that hold a lock_guard / unique_lock / scoped_lock member which one of their
    constructors initialises from a member called like the class mutex: a local of such a class is a lock scope"""
    cache = tu.__dict__.setdefault('_c12_helper_locks', {})
    if T['mutex'] in cache:
        return cache[T['mutex']]
    out = set()
    for top in tu.decls:
        for x in tu.walk(top):
            if x.get('kind') != 'CXXRecordDecl' or not x.get('name'):
                continue
            ks = tu.kids(x)
            if not any(k.get('kind') == 'FieldDecl' and any(l in (k.get('type', {}).get('qualType') or '') for l in
                                                          ('lock_guard<', 'unique_lock<', 'scoped_lock<')) for k in ks):
                continue
            for c in ks:
                if c.get('kind') == 'CXXConstructorDecl' and any(
                        y.get('kind') in ('MemberExpr', 'CXXDependentScopeMemberExpr') and (y.get('name') == T['mutex'] or y.get('member') == T['mutex'])
                        for y in tu.walk(c)):
                    out.add(x['name'])
    cache[T['mutex']] = out
    return out


def lexical_lock(tu, sy, f, n, mutex, T=None):
    """is n inside the lexical scope of a lock variable on `mutex`?  True / False / None (a unique_lock that is unlocked by hand)"""
    x = n
    for _ in range(60):
        par = tu.par(x)
        if par is None:
            return False
        if par.get('kind') == 'CompoundStmt':
            for sib in tu.kids(par):
                if sib is x or sib.get('id') == x.get('id'):
                    break
                if sib.get('kind') == 'DeclStmt':
                    for v_ in tu.kids(sib):
                        # a scope object of a helper class that takes the mutex in its constructor, built from *this
                        if T is not None and v_.get('kind') == 'VarDecl' and \
                                (v_.get('type', {}).get('qualType') or '').split('::')[-1] in helper_lock_classes(tu, T) and \
                                any(y.get('kind') == 'CXXThisExpr' for y in tu.walk(v_)):
                            return True
                    for var, m, held, _v in sy.lock_decl(sib):
                        if m == mutex and held:
                            manual = any(y.get('kind') == 'CXXMemberCallExpr' and last(tu.sd(y).get('q')) in ('unlock', 'release')
                                         for y in tu.walk(tu.body(f)) if 'id' in y)
                            return None if manual else True
                        if m == mutex and held is None:
                            return None
        if par.get('kind') == 'LambdaExpr':
            # the access sits in a closure: locked iff the closure is handed to a helper of this class that invokes its
            # parameter inside a lock scope (`locked([&]{ ... })`); anything else about a closure is not known lexically
            call = tu.par(par)
            hops = 0
            while call is not None and hops < 6 and call.get('kind') not in ('CallExpr', 'CXXMemberCallExpr'):
                call = tu.par(call)
                hops += 1
            if call is None or call.get('kind') not in ('CallExpr', 'CXXMemberCallExpr') or not tu.kids(call):
                return None
            names = [y.get('name') or y.get('member') for y in tu.walk(tu.kids(call)[0])
                     if y.get('kind') in ('MemberExpr', 'UnresolvedMemberExpr', 'CXXDependentScopeMemberExpr', 'UnresolvedLookupExpr')]
            names = [nm for nm in names if nm]
            rec_ = f.get('rec')
            verdicts = []
            for h in tu.functions.values():
                if not h['dep'] or h.get('rec') != rec_ or tu.body(h) is None or h['id'] == f['id']:
                    continue
                if names and last(h['q']) not in names:
                    continue        # (the AST dump does not always name an unresolved member call: then every candidate counts)
                pids = {p_['id'] for p_ in h.get('params', [])}
                calls = [y for y in tu.walk(tu.body(h)) if 'id' in y and y.get('kind') in ('CallExpr', 'CXXOperatorCallExpr') and
                         any(z.get('kind') == 'DeclRefExpr' and z.get('referencedDecl', {}).get('id') in pids
                             for z in tu.walk(tu.kids(y)[0]))] if pids else []
                if calls:
                    verdicts.append(all(lexical_lock(tu, sy, h, y, mutex, T) is True for y in calls))
            return True if verdicts and all(verdicts) else None
        if par.get('kind') in ('CXXMethodDecl', 'FunctionDecl'):
            return False
        x = par
    return False


def pattern_accesses(tu, sy, rec, T, members):
    """accesses to this-><member> in uninstantiated member patterns, with the lexical lock state"""
    out = []
    mutex = (rec, T['mutex'])
    for f in uninstantiated_members(tu, rec):
        for n in tu.walk(tu.body(f)):
            if 'id' not in n or n.get('kind') != 'MemberExpr':
                continue
            fld = sy.field(n)
            if fld is None or fld[0] != rec or fld[1] not in members or not sy.base_is_this(n):
                continue
            held = lexical_lock(tu, sy, f, n, mutex, T)
            if held is False:
                # handed (possibly through std::move / std::forward) to a helper of the class by reference?  Then the access is
                # where the helper uses that parameter: locked iff every candidate helper uses it inside a lexical lock scope
                x, call = n, None
                for _ in range(5):
                    u = nearest_user(tu, x)
                    if u is None:
                        break
                    if u.get('kind') in ('CallExpr', 'CXXMemberCallExpr'):
                        callee0 = tu.strip(tu.kids(u)[0]) if tu.kids(u) else None
                        nm = (callee0 or {}).get('referencedDecl', {}).get('name') if callee0 is not None and callee0.get('kind') == 'DeclRefExpr' else None
                        if nm in ('move', 'forward') or tu.sd(u).get('q') in ('std::move', 'std::forward'):
                            x = u
                            continue
                        call = u
                        break
                    if u.get('kind') in ('CXXStaticCastExpr', 'UnresolvedLookupExpr', 'MaterializeTemporaryExpr'):
                        x = u
                        continue
                    break
                if call is not None:
                    args = tu.kids(call)[1:]
                    pos = [i_ for i_, a_ in enumerate(args) if any(y is x or y.get('id') == x.get('id') for y in tu.walk(a_) if 'id' in y)]
                    verdicts = []
                    for h in tu.functions.values():
                        if not pos or not h['dep'] or h.get('rec') != rec or tu.body(h) is None or h['id'] == f['id'] or \
                                len(h.get('params', [])) != len(args):
                            continue
                        pd = tu.node(h['params'][pos[0]]['id'])
                        if pd is None or not (pd.get('type', {}).get('qualType') or '').rstrip().endswith('&'):
                            continue
                        uses = [y for y in tu.walk(tu.body(h)) if y.get('kind') == 'DeclRefExpr' and
                                y.get('referencedDecl', {}).get('id') == h['params'][pos[0]]['id']]
                        verdicts.append(bool(uses) and all(lexical_lock(tu, sy, h, y, mutex, T) is True for y in uses))
                    if verdicts:
                        held = True if all(verdicts) else None
            out.append((f, f, held, access_kind(tu, sy, n), n))
    return out


def check_uninstantiated(ctx, tu, sy, rec, T, counts):
    """R-C12-1 for members without an instantiation: guarded members must be inside the lexical scope of a lock on the mutex"""
    by_fn = {}
    for a in pattern_accesses(tu, sy, rec, T, set(T['guarded'])):
        by_fn.setdefault(a[0]['id'], []).append(a)
    for f in uninstantiated_members(tu, rec):
        if not is_public(f):
            continue
        accs = by_fn.get(f['id'], [])
        counts[R1] += 1
        inst = '%s %s (not instantiated: lexical lock scopes)' % (f['q'].replace('rkcommon::containers::', '').replace('rkcommon::utility::', ''), f['fty'])
        bad = False
        for (_f, _c, held, kind, n) in accs:
            if kind == 'load' or held is True:
                continue
            bad = True
            fld = sy.field(n)[1]
            if held is None:
                ctx.undecided(R1, inst, 'access to %s under a lock that is released by hand: needs the CFG of an instantiation' % fld,
                              tu.loc(n))
            else:
                ctx.violation(R1, inst, 'the member %s (guarded by %s) is accessed outside the scope of a lock on %s'
                              % (fld, T['mutex'], T['mutex']), tu.loc(n),
                              key='%s|%s|%s|%s-unlocked' % (R1, T['file'], fn_short(f), fld), path=['%s: %s' % (tu.loc(n), tu.show(n))])
        if not bad:
            ctx.ok(R1, inst, '%d access(es) to guarded members, all inside a lock scope' % len(accs), tu.fn_loc(f), nontrivial=bool(accs))


def check_mirrors(ctx, tu, sy, rec, T, counts):
    """R-C12-2 (cached mirrors): an atomic member that some member function fills from a guarded member (`cache = buffer.size()`)
    is a cached view of that member which others read without the lock.  Every public member that changes the guarded member
    has to refresh the cache before it releases the mutex; otherwise a reader gets a value that describes a state the container
    left long ago (a torn / stale observation)."""
    inl = inliner(tu, T)
    mutex = (rec, T['mutex'])
    pubs = [f for f in tu.functions.values() if not f['dep'] and f.get('rec') == rec and tu.cfg(f) is not None
            and not f.get('ctor') and not f.get('dtor') and is_public(f)]
    mirrors = {}        # mirror member -> guarded member it is computed from
    for f in pubs:
        for fn in inl.reachable_fns(f):
            for _b, _i, n in tu.cfg(fn).stmts():
                a = sy.atomic_op(n)
                if a is None or a['op'] != 'store' or a['field'] is None or a['field'][0] != rec or a['field'][1] in TABLE[rec]['guarded']:
                    continue
                _s, _o, args = tu.call_parts(n)
                for gname in TABLE[rec]['guarded']:
                    if args and sy.mentions_field(args[0], (rec, gname)) and not is_atomic_type(sy.field_type(args[0])):
                        mirrors[a['field'][1]] = gname
    for f in pubs:
        if not mirrors:
            break
        g = tu.cfg(f)
        found = Found(T['file'], inl)
        FN = fn_short(f)

        def mutated(n):
            """guarded member changed by this element"""
            for gname in set(mirrors.values()):
                fld = (rec, gname)
                bc = buffer_call(tu, sy, n, fld)
                if bc is not None and not bc[2] and (bc[0] in APPEND or bc[0] in DESTRUCTIVE or bc[0] in ('insert', 'emplace')):
                    return gname
                if n.get('kind') == 'CallExpr' and tu.sd(n).get('q') in ('std::move', 'std::swap') and \
                        any(is_buffer(tu, sy, x, fld) for x in tu.kids(n)[1:]):
                    return gname
                if n.get('kind') in ('CXXMemberCallExpr', 'CXXOperatorCallExpr'):
                    s_, obj, args = tu.call_parts(n)
                    if last(s_.get('q')) in ('swap', 'operator=') and args and obj is not None and sy.local_var(obj) is not None and \
                            is_buffer(tu, sy, args[0], fld) and (last(s_.get('q')) == 'swap' or is_move(tu, sy, n)):
                        return gname
            return None

        def leave(st, node):
            for m in sorted(st[2]):
                found.viol(R2, FN, 'mirror-%s-stale' % m, '%s changes %s but releases %s without refreshing the cached %s (which other '
                           'members fill from %s and hand out without the lock): a later reader that does not get the lock reports '
                           'a state the container left long ago' % (last(f['q']), mirrors[m], T['mutex'], m, mirrors[m]), node)
            return (st[0], st[1], frozenset())

        # state: (locks, known, stale mirrors)
        def transfer(blk, i, e, st):
            locks, known, dirty = st
            ev = sy.event(e)
            n = tu.node(e[1]) if e[0] == 'S' else None
            if ev is not None and ev[0] in LOCK_EVENTS:
                locks2, known2, _p = LockState.apply(locks, known, ev)
                st2 = (locks2, known2, dirty)
                if LockState.holds(locks, mutex) and not LockState.holds(locks2, mutex) and dirty:
                    st2 = leave(st2, n)
                return [st2]
            if n is None:
                return [st]
            a = sy.atomic_op(n)
            if a is not None and a['op'] in ('store', 'rmw') and a['field'] is not None and a['field'][0] == rec and a['field'][1] in mirrors:
                return [(locks, known, frozenset(set(dirty) - {a['field'][1]}))]
            gname = mutated(n)
            if gname is not None:
                return [(locks, known, frozenset(set(dirty) | {m for m, g_ in mirrors.items() if g_ == gname}))]
            return [st]

        def refine(blk, si, st):
            l2, k2 = LockState.refine_try(sy, blk, si, st[0], st[1])
            return [(l2, k2, st[2])]

        res, outs = inl.explore(f, [(frozenset(), frozenset(), frozenset())], transfer, refine, C12Hooks(sy, found, R2))
        for (st, _rv, via) in outs:
            if st[2]:
                leave(st, None)
        counts[R2] += 1
        inst = '%s %s (cached %s)' % (f['q'].replace('rkcommon::containers::', '').replace('rkcommon::utility::', ''), f['fty'],
                                      ', '.join(sorted(mirrors)))
        emit(ctx, tu, g, res, found, inst, (R2,), tu.fn_loc(f), {R2: 'every change of the mirrored member is followed by a refresh of '
                                                                     'its cache inside the critical section'})


def extra_member_accesses(tu, sy, rec, T, member):
    """every access to this->member in the public members (helpers followed, lock state carried):
    [(entry function, function of the access, lock held?, kind 'read'|'write'|'load'|'store'|'rmw-unused'|'rmw', node)]"""
    out = []
    mutex = (rec, T['mutex'])
    inl = inliner(tu, T)
    for f in tu.functions.values():
        if f['dep'] or f.get('rec') != rec or tu.cfg(f) is None or f.get('ctor') or f.get('dtor') or not is_public(f):
            continue
        found = Found(T['file'], inl)

        def transfer(blk, i, e, st, f=f):
            locks, known = st
            ev = sy.event(e)
            n = tu.node(e[1]) if e[0] == 'S' else None
            if ev is not None and ev[0] in LOCK_EVENTS:
                locks, known, _p = LockState.apply(locks, known, ev)
                return [(locks, known)]
            if n is None or n.get('kind') != 'MemberExpr' or sy.field(n) != (rec, member) or not sy.base_is_this(n):
                return [st]
            cur = inl.stack[-1] if inl.stack else f
            out.append((f, cur, LockState.holds(locks, mutex), access_kind(tu, sy, n), n,
                        frozenset(m_ for _h, m_ in locks if m_ is not None and m_[0] == rec)))
            return [st]

        inl.explore(f, [(frozenset(), frozenset())], transfer, lambda blk, si, st: [LockState.refine_try(sy, blk, si, st[0], st[1])],
                    C12Hooks(sy, found, R1))
    out += pattern_accesses(tu, sy, rec, T, {member})      # new members the driver does not instantiate
    return out


def check_extra_mutex(ctx, tu, sy, rec, T, r, member, counts):
    """a second std::mutex member M of the class (R-C12-5, lock order).  All threads of the hand-off meet in the public members, so
    whenever two mutexes of the object are held together every path has to take them in the same order: if one member path
    acquires B while it holds A and another path - that a second thread may run at the same time - acquires A while it holds B,
    the two threads block on each other for ever (and every other caller behind them): nothing is handed over again.
    Decided when every use of M in the member functions is a modelled acquisition (std::lock_guard / std::unique_lock local
    constructed on it, M.lock() / M.unlock()); the acquisition graph over the mutex members of *this is collected with the lock
    state carried through followed helpers.  Violation: a cycle through M whose two sides can run concurrently (different sides of
    the hand-off, two producers, or an unclassified public member).  Anything else about M (try_to_lock, std::lock, passed on,
    a condition variable waiting on it, uninstantiated users) is undecided."""
    inst = '%s::%s (lock order)' % (r['q'].replace('rkcommon::containers::', '').replace('rkcommon::utility::', ''), member)
    M = (rec, member)
    inl = inliner(tu, T)
    counts[R5] += 1
    side_of = lambda f: SIDES[rec].get(last(f['q']), 'any')
    und = []
    edges = {}          # (held mutex, acquired mutex) -> [(entry function, function of the acquisition, node)]
    nacq = [0]
    for f in uninstantiated_members(tu, rec):
        if any(x.get('kind') == 'MemberExpr' and x.get('name') == member for x in tu.walk(tu.body(f))):
            und.append('%s is used in %s, which is not instantiated' % (member, fn_short(f)))
    for f in tu.functions.values():
        if f['dep'] or f.get('rec') != rec or tu.cfg(f) is None or f.get('ctor') or f.get('dtor') or not is_public(f):
            continue
        found = Found(T['file'], inl)
        # every mention of M has to be one of the modelled acquisitions
        for fn in inl.reachable_fns(f):
            for x in tu.walk(tu.body(fn)) if tu.body(fn) is not None else ():
                if 'id' not in x or x.get('kind') != 'MemberExpr' or sy.field(x) != M:
                    continue
                u = nearest_user(tu, x)
                uk = (u or {}).get('kind')
                okuse = False
                if not sy.base_is_this(x):
                    pass
                elif uk in ('CXXConstructExpr', 'CXXTemporaryObjectExpr') and tu.sd(u).get('rec') in ('std::lock_guard', 'std::unique_lock') and \
                        len([a for a in tu.kids(u) if (tu.strip(a) or {}).get('kind') != 'CXXDefaultArgExpr']) == 1:
                    vd = nearest_user(tu, u)
                    okuse = vd is not None and vd.get('kind') == 'VarDecl'
                elif uk == 'CXXMemberCallExpr' and last(tu.sd(u).get('q') or '') in ('lock', 'unlock') and \
                        tu.strip(tu.call_parts(u)[1], casts=True) is x:
                    okuse = True
                if not okuse:
                    und.append('%s is used other than locked by a local std::lock_guard / std::unique_lock or lock() / unlock() in %s (%s)'
                               % (member, fn_short(fn), tu.loc(x)))

        def transfer(blk, i, e, st, f=f):
            locks, known = st
            ev = sy.event(e)
            if ev is None or ev[0] not in LOCK_EVENTS:
                return [st]
            acq = []
            if ev[0] == 'locks':
                for _var, m, held, _v in ev[1]:
                    if held is True:
                        acq.append(m)
                    elif m is None or m == M or held is None:
                        und.append('a lock in %s is constructed in a form that is not modelled (%s)' % (fn_short(f), tu.loc(ev[2])))
            elif ev[0] == 'lk-lock':
                acq.append(dict(known).get(ev[1]))
            elif ev[0] == 'm-lock':
                acq.append(ev[1])
            heldset = {m for _h, m in locks}
            cur = inl.stack[-1] if inl.stack else f
            for a in acq:
                if a is None:
                    und.append('a mutex that is not a member of the object is locked in %s' % fn_short(cur))
                    continue
                if a == M:
                    nacq[0] += 1
                if a in heldset and a == M:
                    und.append('%s is locked again while held in %s' % (member, fn_short(cur)))
                for h in heldset:
                    if h is None:
                        und.append('%s is locked in %s while a mutex that is not modelled is held' % (a[1], fn_short(cur)))
                    elif h != a:
                        edges.setdefault((h, a), []).append((f, cur, ev[-1] if isinstance(ev[-1], dict) else None))
            locks, known, prob = LockState.apply(locks, known, ev)
            if prob is not None and (M in {m for _h, m in locks} or M in acq or ev[0] in ('lk-other', 'm-other')):
                und.append('%s (%s)' % (prob, fn_short(cur)))
            return [(locks, known)]

        inl.explore(f, [(frozenset(), frozenset())], transfer, lambda blk, si, st: [LockState.refine_try(sy, blk, si, st[0], st[1])],
                    C12Hooks(sy, found, R5))
        und += [w for (_r, w) in found.u]
    if und:
        ctx.undecided(R5, inst, 'extra mutex member %s: %s' % (member, und[0]), T['file'])
        return
    # a cycle through M in the acquisition graph
    succ = {}
    for (h, a) in edges:
        succ.setdefault(h, set()).add(a)

    def path(src, dst, seen):
        if src == dst:
            return [src]
        for nx in sorted(succ.get(src, ())):
            if nx not in seen:
                p_ = path(nx, dst, seen | {nx})
                if p_ is not None:
                    return [src] + p_
        return None

    for nx in sorted(succ.get(M, ())):
        back = path(nx, M, {nx})
        if back is None:
            continue
        cyc = [M] + back                   # M -> nx -> ... -> M
        hops = list(zip(cyc, cyc[1:]))
        # two hops of the cycle that two threads can execute at the same time
        conc = None
        for i_, e1 in enumerate(hops):
            for e2 in hops[i_ + 1:]:
                for s1 in edges[e1]:
                    for s2 in edges[e2]:
                        a_, b_ = side_of(s1[0]), side_of(s2[0])
                        if conc is None and not (a_ == 'consumer' and b_ == 'consumer'):
                            conc = (e1, s1, e2, s2)
        if conc is None:
            ctx.undecided(R5, inst, 'the mutexes %s are acquired in both orders, but only by consumer-side members (one consuming thread): '
                          'whether two threads can meet there is not decided' % ' / '.join(m[1] for m in cyc[:-1]), T['file'])
            return
        e1, s1, e2, s2 = conc
        # report at the acquisition made while the class mutex (the lock every caller contends for) is already held, else the first
        first, second = ((e1, s1), (e2, s2)) if e1[0][1] == T['mutex'] else ((e2, s2), (e1, s1))
        (h1, a1), (f1, c1, n1) = first
        (h2, a2), (f2, c2, n2) = second
        chain = lambda f_, c_: fn_short(f_) if f_['id'] == c_['id'] else '%s (called from %s)' % (fn_short(c_), fn_short(f_))
        ctx.violation(R5, inst, 'lock-order inversion: %s acquires %s while it holds %s, and %s acquires %s while it holds %s%s. A thread in '
                      'the one and a thread in the other each hold the mutex the other one waits for: both block for ever, every other '
                      'caller blocks behind them on %s and nothing is handed over again. Take the mutexes of the object in one order '
                      'everywhere (or do not nest them)'
                      % (chain(f1, c1), a1[1], h1[1], chain(f2, c2), a2[1], h2[1],
                         '' if len(hops) == 2 else ' (cycle %s)' % ' -> '.join(m[1] for m in cyc), T['mutex']),
                      tu.loc(n1) if n1 is not None else T['file'],
                      key='%s|%s|%s|lock-order-inversion' % (R5, T['file'], fn_short(c1)),
                      path=['%s: %s' % (tu.loc(n_), tu.show(n_)) for n_ in (n2, n1) if n_ is not None])
        return
    nest = sorted({'%s -> %s' % (h[1], a[1]) for (h, a) in edges if M in (h, a)})
    ctx.ok(R5, inst, 'extra mutex member: %d acquisition(s) on the member paths, %s' % (
        nacq[0], ('always nested in the order ' + ', '.join(nest)) if nest else 'never held together with another mutex of the object'),
        T['file'])


def check_extra_member(ctx, tu, sy, rec, T, r, member, ct, counts):
    """a data member outside the frozen table.  Decided where the accesses decide it:
      atomic, never read by a producer- or consumer-side member (only written there, read by other accessors): statistics, no lock
         needed and no decision of the hand-off depends on it;
      non-atomic: every access under the class mutex (guarded), or every accessing public member on the same side (confined),
         or never written after construction: fine;  written without the lock while a member of the other side / an
         unclassified public member (callable from any thread) also touches it without the lock: data race (violation).
    Everything else stays undecided.  Returns nothing; records the verdict."""
    inst = '%s::%s' % (r['q'].replace('rkcommon::containers::', '').replace('rkcommon::utility::', ''), member)
    acc = extra_member_accesses(tu, sy, rec, T, member)
    side_of = lambda f: SIDES[rec].get(last(f['q']), 'any')
    counts[R1] += 1
    if not acc:
        ctx.ok(R1, inst, 'extra member %s is not accessed by any public member' % member, T['file'])
        return
    if is_atomic_type(ct):
        deciding = [a for a in acc if a[3] in ('load', 'rmw') and side_of(a[0]) != 'any']
        if not deciding:
            ctx.ok(R1, inst, 'extra atomic member: only written (result unused) by the producer / consumer side and read by other '
                   'accessors - no decision of the hand-off depends on it and an atomic needs no lock (%d access(es))' % len(acc),
                   T['file'])
        else:
            a = deciding[0]
            ctx.undecided(R1, inst, 'extra atomic member %s is read by %s: it may take part in the hand-off protocol, which lock / '
                          'ordering discipline applies is not in the table of the check' % (member, fn_short(a[1])), tu.loc(a[4]))
        return
    if ct == 'std::mutex':
        counts[R1] -= 1
        check_extra_mutex(ctx, tu, sy, rec, T, r, member, counts)
        return
    if 'mutex' in ct or 'condition_variable' in ct:
        ctx.undecided(R1, inst, 'extra synchronisation member %s (%s): its role is not in the table of the check' % (member, ct), T['file'])
        return
    if any(a[2] is None for a in acc):
        ctx.undecided(R1, inst, 'extra member %s is accessed in a member that is not instantiated, under a lock released by hand' % member,
                      T['file'])
        return
    unlocked = [a for a in acc if not a[2]]
    writes = [a for a in acc if a[3] == 'write']
    sides = {side_of(a[0]) for a in acc}
    common = None
    for a in acc:
        held_ = a[5] if len(a) > 5 else frozenset()
        common = held_ if common is None else (common & held_)
    if not unlocked:
        ctx.ok(R1, inst, 'extra member: all %d access(es) are under %s' % (len(acc), T['mutex']), T['file'])
    elif common:
        ctx.ok(R1, inst, 'extra member: all %d access(es) are under the member mutex %s' % (len(acc), sorted(common)[0][1]), T['file'])
    elif not writes:
        ctx.ok(R1, inst, 'extra member: never written after construction', T['file'])
    elif sides in ({'producer'}, {'consumer'}):
        ctx.ok(R1, inst, 'extra member: confined to the %s side' % sides.pop(), T['file'])
    else:
        uw = [a for a in unlocked if a[3] == 'write'] or unlocked
        a = uw[0]
        others = sorted({fn_short(x[0]) for x in acc if x[0]['id'] != a[0]['id']})
        ctx.violation(R1, '%s %s' % (a[0]['q'].replace('rkcommon::utility::', '').replace('rkcommon::containers::', ''), a[0]['fty']),
                      'the non-atomic member %s is accessed without %s here, and it is also accessed by %s, which another thread may '
                      'call (different side of the hand-off / unclassified public member): data race. Make it std::atomic or take '
                      'the lock' % (member, T['mutex'], ', '.join(others) or 'other members'), tu.loc(a[4]),
                      key='%s|%s|%s|%s-unlocked' % (R1, T['file'], fn_short(a[1]), member),
                      path=['%s: %s' % (tu.loc(a[4]), tu.show(a[4]))])


# ======================================================================================================
#  lock-free representation of TransactionalValue: one atomic pointer, ownership passed by exchange
# ======================================================================================================
def check_lockfree_value(ctx, tu, sy, rec, T, r, names, counts):
    """TransactionalValue without mutex and flag: a single std::atomic<T*> member Q hands heap nodes from the producer to the
    consumer.  The guarded-by argument is replaced by ownership: a node is owned by whoever took it out of Q with an atomic
    exchange, so no two threads ever touch the same node.
      R-C12-1  every operation on Q in a member function (constructors / destructor exempt) is an exchange with a suitable order;
               a load whose value is only compared with nullptr is harmless; a load followed by a store of Q in the same function
               is a non-atomic read-modify-write (recognised wrong: both sides can end up owning one node); currentValue stays
               consumer-confined
      R-C12-3  update(): takes the node with exchange(nullptr); installs (currentValue <- *node) exactly when the node is not
               null; returns true exactly then
      R-C12-4  assignment: publishes `new T(argument)` with one exchange on every path
    Returns nothing; unrecognised shapes are undecided."""
    q = [n_ for n_, ct_ in names.items() if ct_.startswith('std::atomic<') and ct_.rstrip('>').rstrip().endswith('*')]
    Q = (rec, q[0])
    CUR = (rec, 'currentValue')
    file = T['file']
    short = r['q'].replace('rkcommon::utility::', '')
    counts[R5] += 1
    ctx.ok(R5, '%s (lock-free)' % short, 'no lock: nodes are handed over through the atomic pointer %s, ownership by exchange' % Q[1], file)
    inst_pat = {f.get('pat') for f in tu.functions.values() if not f['dep']}
    fns = [f for f in tu.functions.values() if f.get('rec') == rec and (f.get('recid') == r['id'] or f['dep']) and tu.body(f) is not None
           and not (f['dep'] and f['id'] in inst_pat)]
    for f in fns:
        if f.get('ctor') or f.get('dtor'):
            continue
        name = last(f['q'])
        FN = fn_short(f)
        inst = '%s %s%s' % (f['q'].replace('rkcommon::utility::', ''), f['fty'], ' (not instantiated)' if f['dep'] else '')
        ops = []
        for x in tu.walk(tu.body(f)):
            if 'id' not in x:
                continue
            a = sy.atomic_op(x)
            if a is not None and a['field'] == Q and sy.base_is_this(a['obj']):
                ops.append((a, x))
        counts[R1] += 1
        bad = False
        loads = [(a, x) for a, x in ops if a['op'] == 'load']
        stores = [(a, x) for a, x in ops if a['op'] == 'store']
        side = SIDES[VAL].get(name, 'any')
        if stores and loads:
            bad = True
            a, x = stores[0]
            ctx.violation(R1, inst, '%s reads the shared pointer %s with a load and later overwrites it with a separate store: a '
                          'non-atomic read-modify-write. If the other side exchanges the pointer in between, both sides own the same '
                          'node (it is moved from / deleted twice), or a node nobody has seen is overwritten. Ownership has to change '
                          'hands in one atomic step: %s.exchange(...)' % (name, Q[1], Q[1]), tu.loc(x),
                          key='%s|%s|%s|%s-load-then-store' % (R1, file, FN, Q[1]), path=['%s: %s' % (tu.loc(y), tu.show(y)) for _a, y in loads + stores])
        elif stores:
            bad = True
            ctx.undecided(R1, inst, 'plain store to the hand-off pointer %s: not modelled' % Q[1], tu.loc(stores[0][1]))
        for a, x in loads:
            u = nearest_user(tu, x)
            if not (stores and loads) and not (u is not None and (u.get('kind') == 'BinaryOperator' and u.get('opcode') in ('==', '!=')
                                                                    or u.get('kind') in ('UnaryOperator', 'IfStmt', 'WhileStmt'))):
                bad = True
                ctx.undecided(R1, inst, 'the value loaded from %s is used other than in a null test: ownership not modelled' % Q[1], tu.loc(x))
        for a, x in ops:
            if a['op'] == 'rmw':
                need = (3, 4, 5) if side == 'producer' else (2, 4, 5) if side == 'consumer' else (4, 5)
                if a['name'] != 'exchange':
                    bad = True
                    ctx.undecided(R1, inst, '%s on the hand-off pointer: not modelled' % a['name'], tu.loc(x))
                elif a.get('order') not in need:
                    bad = True
                    ctx.violation(R1, inst, 'exchange on %s with %s: the %s side needs at least %s for the node contents to be visible '
                                  'to the thread that takes the node' % (Q[1], ORD.get(a.get('order'), 'a non-constant order'), side,
                                                                         'release' if side == 'producer' else 'acquire'), tu.loc(x),
                                  key='%s|%s|%s|weak-memory-order' % (R1, file, FN))
        for x in tu.walk(tu.body(f)):
            if 'id' in x and x.get('kind') == 'MemberExpr' and sy.field(x) == CUR and sy.base_is_this(x) and side == 'producer':
                bad = True
                ctx.violation(R1, inst, 'the producer-side member %s touches the consumer-confined member currentValue' % name, tu.loc(x),
                              key='%s|%s|%s|currentValue-in-producer' % (R1, file, FN))
        if not bad:
            ctx.ok(R1, inst, '%d operation(s) on %s, all atomic ownership transfers / null tests' % (len(ops), Q[1]), tu.fn_loc(f))
        if f['dep'] or tu.cfg(f) is None:
            continue
        g = tu.cfg(f)
        if name == 'update':
            counts[R3] += 1
            found = Found(file)

            # state: (node var/expr ids that hold the taken node, nonnull: None/True/False, installed)
            def transfer(blk, i, e, st):
                ids, nn, inst_ = st
                n = tu.node(e[1]) if e[0] == 'S' else None
                if n is None:
                    return [st]
                a = sy.atomic_op(n)
                if a is not None and a['field'] == Q and a['op'] == 'rmw' and a['name'] == 'exchange':
                    _s, _o, args = tu.call_parts(n)
                    z = tu.strip(args[0], casts=True) if args else None
                    if z is not None and z.get('kind') in ('CXXNullPtrLiteralExpr', 'GNUNullExpr', 'IntegerLiteral'):
                        return [(frozenset({n['id']}), None, inst_)]
                    found.und(R3, 'update() exchanges something other than nullptr into %s' % Q[1], n)
                    return [st]
                if n.get('kind') == 'DeclStmt':
                    for v in tu.kids(n):
                        if v.get('kind') == 'VarDecl' and tu.kids(v) and (tu.strip(tu.kids(v)[-1], casts=True) or {}).get('id') in ids:
                            ids = frozenset(set(ids) | {v['id']})
                    return [(ids, nn, inst_)]
                gw = generic_write(tu, n)
                if gw is not None and sy.field(gw[0]) == CUR:
                    deref = any(y.get('kind') == 'UnaryOperator' and y.get('opcode') == '*' and
                                (sy.local_var(tu.kids(y)[0]) in ids or (tu.strip(tu.kids(y)[0], casts=True) or {}).get('id') in ids)
                                for y in tu.walk(gw[1]))
                    if not deref:
                        found.und(R3, 'update() writes currentValue from something other than the node it took', n)
                        return [st]
                    if nn is not True:
                        found.viol(R3, FN, 'install-without-node', 'update() dereferences the pointer it took out of %s on a path where it '
                                   'was not found non-null' % Q[1], n)
                    return [(ids, nn, True)]
                if n.get('kind') == 'ReturnStmt':
                    v = sy.const_bool(tu.kids(n)[0]) if tu.kids(n) else None
                    if v is None:
                        found.und(R3, 'return value of update() is not a constant', n)
                    elif v and not inst_:
                        found.viol(R3, FN, 'returns-true-without-install', 'update() returns true on a path that did not install a new value', n)
                    elif not v and inst_:
                        found.viol(R3, FN, 'returns-false-after-install', 'update() returns false on a path that installed a new value', n)
                    if not inst_ and nn is True:
                        found.viol(R3, FN, 'flag-set-not-installed', 'update() took a node out of %s but returns without installing it: the '
                                   'value is lost' % Q[1], n)
                    if not inst_ and nn is None and not ids:
                        found.viol(R3, FN, 'no-flag-test', 'update() returns without having looked at %s' % Q[1], n)
                return [st]

            def refine(blk, si, st):
                ids, nn, inst_ = st
                if blk.cond is None or len(blk.succ) != 2:
                    return [st]
                pol, atom = sy.cond_atom(tu.node(blk.cond))
                truth = pol if si == 0 else (not pol)
                if atom is None:
                    return [st]
                tgt = None
                if atom.get('kind') == 'BinaryOperator' and atom.get('opcode') in ('==', '!='):
                    a0, b0 = tu.kids(atom)
                    for x_, y_ in ((a0, b0), (b0, a0)):
                        y1 = tu.strip(y_, casts=True)
                        x1 = tu.strip(x_, casts=True)
                        if y1 is not None and y1.get('kind') in ('CXXNullPtrLiteralExpr', 'GNUNullExpr', 'IntegerLiteral') and x1 is not None and \
                                (sy.local_var(x1) in ids or x1.get('id') in ids):
                            isnull = truth if atom['opcode'] == '==' else (not truth)
                            tgt = not isnull
                elif sy.local_var(atom) in ids or atom.get('id') in ids:
                    tgt = truth
                if tgt is None:
                    return [st]
                if nn is not None and nn != tgt:
                    return []
                return [(ids, tgt, inst_)]

            res = g.explore([(frozenset(), None, False)], transfer, refine)
            emit(ctx, tu, g, res, found, inst, (R3,), tu.fn_loc(f),
                 {R3: 'takes the node with exchange(nullptr); installs and returns true exactly when it is not null'})
        elif name == 'operator=':
            counts[R4] += 1
            found = Found(file)
            params = {p_['id'] for p_ in f.get('params', [])[:1]}

            def transfer(blk, i, e, st):
                n = tu.node(e[1]) if e[0] == 'S' else None
                if n is None:
                    return [st]
                a = sy.atomic_op(n)
                if a is not None and a['field'] == Q and a['op'] in ('rmw', 'store'):
                    _s, _o, args = tu.call_parts(n)
                    z = tu.strip(args[0], casts=True) if args else None
                    if z is not None and z.get('kind') == 'CXXNewExpr' and mentions_any(sy, z, params):
                        return [min(st + 1, 2)]
                    found.und(R4, 'assignment writes something other than `new T(argument)` into %s' % Q[1], n)
                return [st]

            res = g.explore([0], transfer, None)
            for (st, via) in res.exits:
                if g.blocks[via].noret:
                    continue
                if st == 0:
                    found.viol(R4, FN, 'nothing-queued', 'a path through the assignment does not publish the value', None, exit_at(res, via))
                elif st > 1:
                    found.viol(R4, FN, 'published-twice', 'a path through the assignment publishes two nodes: the first one may already '
                               'have been taken, the consumer then sees the value twice / out of order', None, exit_at(res, via))
            emit(ctx, tu, g, res, found, inst, (R4,), tu.fn_loc(f), {R4: 'publishes new T(argument) exactly once on every path'})


# ======================================================================================================
#  R-C12-5 the lock type gives acquire / release ordering
# ======================================================================================================
TRUSTED_MUTEXES = ('std::mutex', 'std::recursive_mutex', 'std::timed_mutex', 'std::recursive_timed_mutex', 'std::shared_mutex',
                   'std::shared_timed_mutex')
ACQ = (2, 4, 5)      # memory_order_acquire, acq_rel, seq_cst
REL = (3, 4, 5)      # memory_order_release, acq_rel, seq_cst
ORD = {0: 'memory_order_relaxed', 1: 'memory_order_consume', 2: 'memory_order_acquire', 3: 'memory_order_release',
       4: 'memory_order_acq_rel', 5: 'memory_order_seq_cst'}


def check_lockable(ctx, tu, sy, rec, T, mtype, counts):
    """The guarded-by argument needs more than mutual exclusion: the end of one critical section must happen-before the start
    of the next.  std::mutex & co are trusted.  A user-defined lockable (used through lock_guard / unique_lock) is analysed:
    unlock() must publish with a store / read-modify-write of at least memory_order_release on every path, lock() must return
    only after a read-modify-write of at least memory_order_acquire that observed the lock free.
    Returns True when the member can be treated as a lock by the other rules."""
    counts[R5] += 1
    inst = '%s::%s : %s' % (T['short'], T['mutex'], mtype)
    holder = None
    m_ = re.match(r'^(?:std::unique_ptr|std::shared_ptr)<(.+?)(?:, .*)?>$', mtype) or re.match(r'^(.+?) ?[*&]$', mtype)
    if m_ is not None:
        holder, mtype = mtype, m_.group(1).strip()
    if holder is not None:
        # the mutex is reached through a pointer / reference member: all threads must meet at the *same* mutex object, so the
        # member may only be set up before the object is shared (constructors, move operations: setup time) - a member
        # function that creates or replaces it while others may be calling is the recognised-wrong form (lazy creation)
        bad = False
        seen = set()
        fns = [f for f in tu.functions.values() if f.get('rec') == rec and not f.get('ctor') and not f.get('dtor')
               and not f.get('assign') and tu.body(f) is not None]
        for f in fns:
            if f['dep'] and any(not g_['dep'] and g_.get('pat') == f['id'] for g_ in tu.functions.values()):
                continue            # the instantiations are looked at instead of the pattern
            for x in tu.walk(tu.body(f)):
                if 'id' not in x or x.get('kind') not in ('CXXMemberCallExpr', 'CXXOperatorCallExpr', 'BinaryOperator'):
                    continue
                target = None
                if x.get('kind') == 'BinaryOperator' and x.get('opcode') == '=':
                    target = tu.kids(x)[0]
                elif x.get('kind') != 'BinaryOperator':
                    s_, obj, _a = tu.call_parts(x)
                    if last(s_.get('q')) in ('reset', 'release', 'swap', 'operator='):
                        target = obj
                if target is not None and sy.field(target) == (rec, T['mutex']) and fn_short(f) not in seen:
                    seen.add(fn_short(f))
                    bad = True
                    ctx.violation(R5, inst, 'the mutex object behind %s (%s) is created / replaced in the member function %s, which '
                                  'threads call concurrently (unsynchronised check-and-create): two first callers each create their own '
                                  'mutex, the second assignment destroys the one the first caller holds - for that overlap there is no '
                                  'mutual exclusion on the guarded members, and the first caller unlocks freed memory. Create the mutex '
                                  'in the constructor (or keep it by value)' % (T['mutex'], holder, fn_short(f)), tu.loc(x),
                                  key='%s|%s|%s|lock-object-replaced' % (R5, T['file'], fn_short(f)),
                                  path=['%s: %s' % (tu.loc(x), tu.show(x))])
        if not bad:
            ctx.ok(R5, inst + ' (identity)', 'the mutex behind %s is set up only by constructors / move operations' % holder, T['file'])
    if mtype in TRUSTED_MUTEXES:
        ctx.ok(R5, inst, 'standard mutex: unlock() synchronizes-with the next lock() (trusted contract)', T['file'])
        return True
    locks = [f for f in tu.fns(q=mtype + '::lock', dep=False) if tu.cfg(f) is not None]
    unlocks = [f for f in tu.fns(q=mtype + '::unlock', dep=False) if tu.cfg(f) is not None]
    if len(locks) != 1 or len(unlocks) != 1:
        ctx.undecided(R5, inst, 'lock type %s: bodies of lock() / unlock() not available: ordering not decided' % mtype, T['file'])
        return False
    short = mtype.split('::')[-1]
    bad = False
    for fn, side in ((unlocks[0], 'unlock'), (locks[0], 'lock')):
        g = tu.cfg(fn)
        file = tu.fn_file(fn)
        inl = Inliner(tu, lambda cf, file=file: tu.fn_file(cf) == file)
        found = Found(file, inl)
        FN = '%s::%s' % (short, side)

        # state: (best, last, toks, acq)  best: strongest ordering effect seen on the path ('ok' / weakest order seen); for lock():
        # toks = read-modify-writes whose result is pending, acq = order of the one that observed the lock free
        def transfer(blk, i, e, st, side=side):
            n = tu.node(e[1]) if e[0] == 'S' else None
            if n is None:
                return [st]
            if n.get('kind') == 'CallExpr' and tu.sd(n).get('q') in ('std::atomic_thread_fence', 'std::atomic_signal_fence'):
                found.und(R5, 'memory fence in %s(): fence-based ordering is not modelled' % side, n)
                return [st]
            a = sy.atomic_op(n)
            if a is None or a['field'] is None or a['field'][0] != mtype:
                return [st]
            writes, toks, acq = st
            if side == 'unlock' and a['op'] in ('store', 'rmw'):
                return [(writes + ((a['order'], n['id']),), toks, acq)]
            if side == 'lock' and a['op'] == 'rmw':
                free_when = {'exchange': False, 'test_and_set': False, 'compare_exchange_weak': True,
                             'compare_exchange_strong': True}.get(a['name'])
                if free_when is None:
                    found.und(R5, 'lock() acquires through %s(): not modelled' % a['name'], n)
                    return [st]
                return [(writes, frozenset(set(toks) | {(n['id'], free_when, a['order'])}), acq)]
            return [st]

        def refine(blk, si, st):
            atom, truth = sy.edge_truth(blk, si)
            if atom is None:
                return [st]
            writes, toks, acq = st
            for t in toks:
                if t[0] == atom.get('id') and truth == t[1]:
                    return [(writes, toks, (t[2], t[0]))]
            return [st]

        res, outs = inl.explore(fn, [((), frozenset(), None)], transfer, refine, C12Hooks(sy, found, R5))
        for (st, _rv, via) in outs:
            writes, toks, acq = st
            at = exit_at(res, via)
            if side == 'unlock':
                if not writes:
                    found.und(R5, 'unlock() has a path without an atomic write: not recognised as a lock release', None)
                elif not any(o in REL for o, _n in writes):
                    o, nid = writes[-1]
                    found.viol(R5, FN, 'unlock-not-release', 'unlock() releases the lock with %s: nothing makes the writes of the critical '
                               'section happen-before the next lock() in another thread, so accesses to the members guarded by this '
                               'lock are a data race although they are mutually exclusive' % ORD.get(o, 'a non-constant order'),
                               tu.node(nid), at)
            else:
                if acq is None:
                    found.und(R5, 'lock() can return without a read-modify-write that observed the lock free: not recognised as a '
                              'lock acquisition', None)
                elif acq[0] not in ACQ:
                    found.viol(R5, FN, 'lock-not-acquire', 'lock() takes the lock with %s: the critical section is not ordered after the '
                               'previous owner\'s unlock(), so accesses to the members guarded by this lock are a data race'
                               % ORD.get(acq[0], 'a non-constant order'), tu.node(acq[1]), at)
        if found.v:
            bad = True
        emit(ctx, tu, g, res, found, '%s (%s)' % (inst, side), (R5,), tu.fn_loc(fn),
             {R5: 'acquire on lock' if side == 'lock' else 'release on unlock'})
        if found.u:
            return False
    return True


# ======================================================================================================
#  R-C12-3 (faithful pending indicator)
# ======================================================================================================
def check_indicator_type(ctx, tu, rec, T, r, names, counts):
    """the `new value pending` indicator is a boolean that the producer sets and the consumer clears (both under the mutex,
    R-C12-3/4): it is true exactly while there are assignments that update() has not installed"""
    counts[R3] += 1
    ty = names['newValue']
    inty = ty.replace('std::atomic<', '').rstrip('>').strip()
    if inty in ('int', 'unsigned int', 'long', 'unsigned long', 'short', 'unsigned short', 'unsigned char', 'signed char', 'char'):
        ctx.ok(R3, '%s pending indicator' % r['q'].replace('rkcommon::utility::', ''), 'newValue is a %s: raised by the producer, has to be '
               'reset to zero by the consumer (R-C12-3 checks the reset)' % ty, T['file'])
        return
    if ty.startswith('std::atomic<') and inty not in ('bool',) and tu.records_by_type.get(inty) is None and '*' not in inty:
        ctx.ok(R3, '%s pending indicator' % r['q'].replace('rkcommon::utility::', ''), 'the indicator is a %s (an enumeration): zero = '
               'nothing pending; raised by the producer, reset by the consumer (R-C12-3 / R-C12-4 check both)' % ty, T['file'])
        return
    if ty in ('bool', 'std::atomic<bool>'):
        ctx.ok(R3, '%s pending indicator' % r['q'].replace('rkcommon::utility::', ''), 'newValue is a %s set by the producer and cleared '
               'by the consumer' % ty, T['file'])
    else:
        ctx.undecided(R3, '%s pending indicator' % r['q'].replace('rkcommon::utility::', ''), 'newValue has type %s: not a boolean flag, '
                      'faithfulness of the pending test not decided' % ty, T['file'])


def member_operand(tu, sy, rec, e):
    """(member name) if e reads a data member of *this (plain read or atomic load), else None"""
    e = tu.strip(e, casts=True)
    if e is None:
        return None
    a = sy.atomic_op(e)
    if a is not None and a['op'] == 'load' and a['field'] is not None and a['field'][0] == rec and sy.base_is_this(a['obj']):
        return a['field'][1]
    fld = sy.field(e)
    if fld is not None and fld[0] == rec and sy.base_is_this(e):
        return fld[1]
    return None


def check_counter_indicator(ctx, tu, sy, rec, T, recs):
    """the anchored flag is gone: is the pending test of update() a comparison of wrapping counters?  (recognised-wrong form)
    Returns True if a verdict (violation) was given."""
    gave = False
    for r in recs:
        fields = {x['name']: x for x in r.get('fields', [])}
        ups = [f for f in tu.functions.values() if not f['dep'] and f.get('recid') == r['id'] and last(f['q']) == 'update'
               and tu.cfg(f) is not None]
        prods = [f for f in tu.functions.values() if not f['dep'] and f.get('recid') == r['id'] and last(f['q']) in T['producer']
                 and tu.cfg(f) is not None]
        inl = inliner(tu, T)
        for f in ups:
            for b in tu.cfg(f).blocks.values():
                if not b.cond:
                    continue
                pol, atom = sy.cond_atom(tu.node(b.cond))
                if atom is None or atom.get('kind') != 'BinaryOperator' or atom.get('opcode') not in ('==', '!='):
                    continue
                ops = [member_operand(tu, sy, rec, x) for x in tu.kids(atom)]
                if None in ops or ops[0] == ops[1]:
                    continue
                widths = [fields[o]['talign'] for o in ops if o in fields]
                ints = all(o in fields and 'bool' not in fields[o]['ct'] and fields[o]['ct'].replace('std::atomic<', '').rstrip('>').strip()
                           in ('unsigned char', 'signed char', 'char', 'unsigned short', 'short', 'unsigned int', 'int', 'unsigned long',
                               'long', 'unsigned long long', 'long long') for o in ops)
                if not ints or len(widths) != 2:
                    continue
                # does the producer advance one of them by a wrapping increment?
                bumped = None
                for pf in prods:
                    for fn in inl.reachable_fns(pf):
                        for _b, _i, n in tu.cfg(fn).stmts():
                            a = sy.atomic_op(n)
                            if a is not None and a['op'] == 'rmw' and a['field'] is not None and a['field'][0] == rec and \
                                    a['field'][1] in ops and a['name'] in ('operator++', 'operator+=', 'fetch_add'):
                                bumped = a['field'][1]
                            if n.get('kind') in ('UnaryOperator', 'CompoundAssignOperator') and n.get('opcode') in ('++', '+='):
                                fld = sy.field(tu.kids(n)[0])
                                if fld is not None and fld[0] == rec and fld[1] in ops:
                                    bumped = fld[1]
                if bumped is None:
                    continue
                w = min(widths)
                inst = '%s %s' % (f['q'].replace('rkcommon::utility::', ''), f['fty'])
                if w < 8:
                    gave = True
                    ctx.violation(R3, inst, 'update() decides whether a new value is pending by comparing the %d-bit counters %s and %s '
                                  '(the producer increments %s for every assignment): after a multiple of 2^%d assignments between two '
                                  'update() calls the counters are equal again, update() returns false and the last value is never '
                                  'delivered. Equality of truncated counters is not a faithful "assignments since the last update > 0"'
                                  % (8 * w, ops[0], ops[1], bumped, 8 * w), tu.loc(atom),
                                  key='%s|%s|%s|pending-test-wraps' % (R3, T['file'], fn_short(f)),
                                  path=['%s: %s' % (tu.loc(atom), tu.show(atom))])
    return gave


# ======================================================================================================
def check_tu(ctx, tu, counts):
    sy = Sync(tu)
    for rec, T in TABLE.items():
        recs = [r for r in tu.records.values() if r.get('tmpl') == rec and not r.get('lambda')]
        if not recs:
            ctx.broken('C12: no instantiation of %s in %s' % (rec, tu.unit))
            continue
        want = set(T['guarded']) | set(T['confined']) | {T['mutex']}
        okrec = True
        lock_checked = set()
        for r in recs:
            names = {x['name']: x['ct'] for x in r.get('fields', [])}
            if rec == VAL and not want <= set(names) and 'currentValue' in names:
                # the shared state may live in a nested class held by value (flag + queued value + mutex): its members then
                # stand for newValue / queuedValue / mutex, whatever they are called (roles by type)
                for hn, hct in sorted(names.items()):
                    hr = tu.records_by_type.get(hct)
                    if hr is None or hn == 'currentValue' or not hr.get('fields'):
                        continue
                    hf = hr['fields']
                    mx = [x_ for x_ in hf if x_['ct'] in TRUSTED_MUTEXES]
                    fl = [x_ for x_ in hf if x_['ct'] in ('bool', 'std::atomic<bool>')]
                    pv = [x_ for x_ in hf if x_['ct'] == names['currentValue']]
                    if len(mx) == 1 and len(fl) == 1 and len(pv) == 1 and len(hf) == 3:
                        sy.field_map[(hr['q'], mx[0]['name'])] = (VAL, 'mutex')
                        sy.field_map[(hr['q'], fl[0]['name'])] = (VAL, 'newValue')
                        sy.field_map[(hr['q'], pv[0]['name'])] = (VAL, 'queuedValue')
                        tu.__dict__['_c12_holder'] = hn
                        tu.__dict__['_c12_names'] = {fl[0]['name']: 'newValue', pv[0]['name']: 'queuedValue', mx[0]['name']: 'mutex'}
                        names = dict(names, mutex=mx[0]['ct'], newValue=fl[0]['ct'], queuedValue=pv[0]['ct'])
                        ctx.note('%s: shared state lives in the nested class %s (%s = newValue, %s = queuedValue, %s = mutex)'
                                 % (T['short'], hr['q'].split('::')[-1], fl[0]['name'], pv[0]['name'], mx[0]['name']))
                        break
            dbvs = [x_ for x_, ct_ in names.items() if ct_.startswith(DBV + '<')]
            if rec == VAL and not want <= set(names) and want - set(names) <= {'queuedValue', 'currentValue'} and len(dbvs) == 1:
                # the two value slots live in a DoubleBufferedValue member: back() is the queued slot (guarded by the mutex),
                # front() the current slot (consumer-confined), swap() the install
                tu.__dict__['_c12_dbv'] = dbvs[0]
                T = dict(T, guarded=tuple(g_ for g_ in T['guarded'] if g_ in names), confined={})
                want = set(T['guarded']) | {T['mutex']}
            atomic_ptrs = [n_ for n_, ct_ in names.items() if ct_.startswith('std::atomic<') and ct_.rstrip('>').rstrip().endswith('*')]
            if rec == VAL and {'mutex', 'newValue'} <= want - set(names) and 'currentValue' in names and len(atomic_ptrs) == 1:
                check_lockfree_value(ctx, tu, sy, rec, T, r, names, counts)
                okrec = False
                continue
            if rec == VAL and want - set(names) == {'newValue'}:
                # the flag under another name / type: the one atomic member besides the anchored ones (two-state enum, int, bool),
                # unless the pending test is a recognised-wrong comparison of counters
                cand = [n_ for n_, ct_ in names.items() if n_ not in want and ct_.startswith('std::atomic<')]
                plain_ints = [n_ for n_, ct_ in names.items() if n_ not in want and not ct_.startswith('std::atomic<') and
                              ct_ in ('unsigned char', 'unsigned short', 'unsigned int', 'unsigned long', 'int', 'short', 'long')]
                if len(cand) == 1 and not plain_ints:
                    sy.field_map[(VAL, cand[0])] = (VAL, 'newValue')
                    tu.__dict__.setdefault('_c12_names', {})[cand[0]] = 'newValue'
                    if 'newValue' not in names:
                        ctx.note('%s: the pending indicator is the atomic member %s (%s)' % (T['short'], cand[0], names[cand[0]]))
                    names = dict(names, newValue=names[cand[0]])
                    tu.__dict__['_c12_flagname'] = cand[0]
            if not want <= set(names):
                if rec == VAL and want - set(names) == {'newValue'} and check_counter_indicator(ctx, tu, sy, rec, T, [r]):
                    # the flag was replaced by a recognised-wrong pending test: reported; the other rules need the flag
                    ctx.note('%s: member newValue is gone; R-C12-1/3/4 not evaluated for this record' % r['q'])
                else:
                    ctx.broken('C12: %s lacks the anchored member(s) %s' % (r['q'], sorted(want - set(names))))
                okrec = False
                continue
            if names[T['mutex']] not in lock_checked:
                lock_checked.add(names[T['mutex']])
                if not check_lockable(ctx, tu, sy, rec, T, names[T['mutex']], counts):
                    okrec = False
            if rec == VAL:
                check_indicator_type(ctx, tu, rec, T, r, names, counts)
            for extra in sorted(set(names) - want):
                if rec == VAL and (extra == dbv_member(tu) or extra == tu.__dict__.get('_c12_holder') or
                                   extra == tu.__dict__.get('_c12_flagname')):
                    continue
                if is_atomic_type(names[extra]) and atomic_mirror(tu, sy, rec, T, extra):
                    # contradiction rule: the code itself writes this atomic under the mutex somewhere, i.e. it mirrors guarded
                    # state; every other write has to be under the same mutex (loads stay exempt)
                    if extra not in T['guarded']:
                        T = dict(T, guarded=tuple(T['guarded']) + (extra,))
                        ctx.note('%s: new atomic member `%s` is written under %s in at least one member function: treated as guarded by it'
                                 % (T['short'], extra, T['mutex']))
                    continue
                check_extra_member(ctx, tu, sy, rec, T, r, extra, names[extra], counts)
        if not okrec:
            continue
        recognise_handles(ctx, tu, sy, rec, T)
        for f in tu.functions.values():
            if f['dep'] or f.get('rec') != rec or tu.cfg(f) is None or f['id'] in sy.handles:
                continue
            if f.get('ctor') and rec == VAL and f.get('ctor') in ('default', 'other'):
                check_flag_init(ctx, tu, sy, f, counts)
            if f.get('ctor') or f.get('dtor'):
                continue
            if not is_public(f):
                continue        # private helpers are analysed where they are called (followed from every public member)
            check_guarded(ctx, tu, sy, rec, T, f, counts)
            name = last(f['q'])
            if rec == BUF:
                check_buffer_ops(ctx, tu, sy, f, counts)
            elif name == 'update':
                check_update(ctx, tu, sy, f, counts)
            elif name == 'operator=':
                check_assign(ctx, tu, sy, f, counts)
        check_uninstantiated(ctx, tu, sy, rec, T, counts)
        check_mirrors(ctx, tu, sy, rec, T, counts)


def run(ctx):
    ctx.describe(R1, 'every access to a mutex-guarded member lies inside a lock scope of that mutex (atomic members: loads exempt); no '
                     'reference to a guarded member escapes; producer-side members do not touch consumer-confined state')
    ctx.describe(R2, 'TransactionalBuffer: push_back appends its argument exactly once; consume() hands out the whole content and leaves '
                     'the buffer empty; nothing else mutates the buffer')
    ctx.describe(R3, 'TransactionalValue::update() returns true exactly on the installing path, installs iff the flag was observed set, '
                     'resets the flag inside the installing lock scope')
    ctx.describe(R4, 'TransactionalValue assignment stores the argument into queuedValue and sets the flag inside one lock scope')
    ctx.describe(R5, 'the lock guarding the members orders consecutive critical sections: std::mutex (trusted) or a user-defined '
                     'lockable whose unlock() releases (>= memory_order_release) and whose lock() acquires (>= memory_order_acquire)')
    ctx.assume('constructors and destructors run before the object is shared / after sharing has ended (no concurrent access yet): '
               'they are exempt from the guarded-by rule')
    ctx.assume('TransactionalValue is used 1-to-1 as documented: one producer thread assigns, one consumer thread calls update()/get()/ref()')
    ctx.assume('a moved-from std::vector is empty (libstdc++ / every mainstream implementation; the standard only says valid but unspecified)')
    ctx.note('TransactionalValue::operator=(const TransactionalValue<T>&) calls the non-const ref() on a const argument and does not '
             'compile when instantiated: it has no instantiation and no CFG; R-C12-1 is decided for it on lexical lock scopes only')
    jobs = [dict(unit='drivers/c12_handoff.cpp', config='TBB')]
    if ctx.tier == 'thorough':
        jobs.append(dict(unit='drivers/c12_handoff.cpp', config='TBB', std='gnu++17'))
        jobs.append(dict(unit='drivers/c12_handoff.cpp', config='INTERNAL'))
    tus = ctx.front.parse_many(jobs)
    counts = {R1: 0, R2: 0, R3: 0, R4: 0, R5: 0}
    for tu in tus:
        check_tu(ctx, tu, counts)
    k = len(tus)
    ctx.floor(R1, counts[R1], 32 * k, 'per parse: 15 TransactionalBuffer members (3 payloads) + 17 TransactionalValue members (4 payloads)')
    ctx.floor(R2, counts[R2], 15 * k, 'per parse: 5 TransactionalBuffer members x 3 payloads')
    ctx.floor(R3, counts[R3], 4 * k, 'per parse: update() for 4 payloads')
    ctx.floor(R4, counts[R4], 5 * k, 'per parse: 5 instantiations of the assignment template')
    ctx.floor(R5, counts[R5], 2 * k, 'per parse: the mutex type of TransactionalBuffer and of TransactionalValue')
    from rkstatic import selftest
    selftest.run(ctx)
