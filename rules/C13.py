"""C13 - the configured tasking thread count is reported and never exceeded.

Decided statically, per backend configuration (TBB, OMP, INTERNAL, DEBUG), by a value-flow analysis over the
clang CFGs of initTaskingSystem / numTaskingThreads with all callees that have a body in rkcommon inlined
(make_unique, the handle constructor, detail::initTaskSystemInternal, ...), path-split on the sign of n:

  R-C13-1  on every path of initTaskingSystem(n) that admits n > 0 the backend's limit API
           (tbb::global_control(max_allowed_parallelism, .), omp_set_num_threads(.), enki::TaskScheduler::Initialize(.))
           receives the value n itself; on paths that admit n <= 0 the limit API is either not reached (TBB/OMP:
           the backend default stays) or receives a hardware-derived count (INTERNAL).  TBB: the global_control
           object is owned by the handle that the call installs (else the limit dies with a temporary).
           INTERNAL: the scheduler that was initialised is the one held by the global the getter reads.
  R-C13-2  on every path of numTaskingThreads() that admits a non-null handle the returned value is the paired getter
           (global_control::active_value(max_allowed_parallelism) / omp_get_max_threads() /
           TaskScheduler::GetNumTaskThreads() of the same global scheduler / literal 1).
  R-C13-3  on every path of numTaskingThreads() that admits a null handle the result is literal 0 and the handle is
           not dereferenced.
  R-C13-4  every path of initTaskingSystem installs a freshly created handle in the global handle (no
           "already initialised" early exit).
  R-C13-5  INTERNAL: enki::TaskScheduler::Initialize(k) leaves m_NumThreads == k on every path,
           GetNumTaskThreads returns m_NumThreads, and every thread-creation call of the scheduler sits in a counted
           loop that runs exactly m_NumThreads - 1 times.

  R-C13-6  (added by the coordinator) the limit installed by initTaskingSystem is the only source of the team size: no
           OpenMP directive of the parallel_for instantiations carries a num_threads clause, no limit API is called
           outside tasking_system_init.cpp, no tbb::task_arena is created with an explicit concurrency.
  R-C13-7  (added by the coordinator) initTaskingSystem never empties the installed handle before the new one has been
           constructed (for TBB the handle owns the global_control, so emptying first opens a window without a limit).

  R-C13-8  when initTaskingSystem returns, no persistent cell other than the global handle holds the previously installed
           handle (under TBB the minimum over all live global_control objects is the active limit, so a parked old handle
           keeps capping the new setting; harmless for the backends whose handle owns no limit object).
  R-C13-9  OpenMP: the initialisation path does not enable nested parallel regions (omp_set_max_active_levels(k >= 2) /
           omp_set_nested(non-zero) would let every outer thread fork its own team of n).
  R-C13-10 destructors are followed: when the global handle is overwritten (unique_ptr assignment / reset / a local owner
           going out of scope) the previous handle's destructor runs *after* the new handle was constructed; if it writes
           the backend limit, the last write on the path is not n any more (recognised wrong).  TBB's global_control does
           this correctly inside the library and has no rkcommon destructor body, so it stays silent.
  R-C13-12 "before initialisation numTaskingThreads() is 0": the cell numTaskingThreads() tests or returns is given a non-null
           value only on paths that start in initTaskingSystem; every other entry point of the tasking-init sources is analysed
           (callees inlined) and must leave it alone.  In the published-count form (numTaskingThreads returns a stored count)
           R-C13-2 additionally requires the stored value to be the paired getter sampled after the previous owner of the
           limit was released, and R-C13-3 that the cell is statically 0.
  R-C13-13 the public declaration of numTaskingThreads carries no __attribute__((const)) (it reads state that initTaskingSystem
           replaces; the compiler could merge calls across a re-initialisation); initTaskingSystem carries neither const nor pure.
           In the cached form (numTaskingThreads returns a count kept in a persistent cell) R-C13-2 requires every path of
           initTaskingSystem to refresh that cell with the paired getter or to reset the key the cache is guarded by.
  R-C13-14 parallel_for (header-only) selects its backend by the tasking configuration alone: for each configuration, with and
           without -fopenmp in the client, parallel_for_impl uses tbb::parallel_for / an OpenMP loop / parallel_for_internal /
           a plain loop exactly as the library does.  R-C13-1 also requires the default for n <= 0 to be *positive*: an
           expression over hardware counts whose range includes 0 (count - 1) is recognised wrong.
  R-C13-11 the object holding the process-wide handle is one object per program: if initTaskingSystem / numTaskingThreads are
           inline in the public header, the state they reach must not be a namespace-scope variable with internal linkage
           (`static` / anonymous namespace in a header = one copy per translation unit); a function-local static of an
           inline function, a C++17 inline variable or an extern declaration are accepted.

Not decided: that no more than n threads are ever inside parallel_for bodies at the same time (a runtime quantity
of each backend's scheduler).
"""
import os
import re

from rkstatic.x_expr import INF, Poly, counted_loops
from rkstatic.x_valueflow import Flow, show_val, strip_site

LEVEL = 'other'
EXPLANATION = (
    "Per backend (TBB, OpenMP, internal enkiTS, serial debug) an inlining value-flow analysis of initTaskingSystem and "
    "numTaskingThreads (path-split on the sign of n and on the nullness of the global handle; comparisons normalised, so "
    "any guard equivalent to n > 0 is accepted) decides that n reaches the backend's limit API unmodified exactly when "
    "n > 0, that n <= 0 leaves the backend default or passes a hardware-derived count, that the query is the getter "
    "paired with that limit API, that an uninitialised system reports 0, and that every initialisation installs a "
    "fresh handle; for enkiTS additionally that Initialize(k) records k and creates its threads in a loop of exactly "
    "k-1 iterations.  Not decided: the number of threads simultaneously inside parallel_for bodies (a property of the "
    "backend schedulers at run time), and what the TBB/OpenMP runtimes do with the limit.")

UNIT = 'rkcommon/tasking/detail/tasking_system_init.cpp'
TASKSYS = 'rkcommon/tasking/detail/TaskSys.cpp'
ENKI = 'rkcommon/tasking/detail/enkiTS/TaskScheduler.cpp'
INIT = 'rkcommon::tasking::initTaskingSystem'
QUERY = 'rkcommon::tasking::numTaskingThreads'

RX_GC_CTOR = re.compile(r'^tbb::(detail::\w+::)?global_control::global_control$')
RX_GC_GET = re.compile(r'^tbb::(detail::\w+::)?global_control::active_value$')
RX_GC_PAR = re.compile(r'^tbb::(detail::\w+::)?global_control::max_allowed_parallelism$')
ENKI_INIT = 'enki::TaskScheduler::Initialize'
ENKI_GET = 'enki::TaskScheduler::GetNumTaskThreads'
HW_CALLS = ('enki::GetNumHardwareThreads', 'std::thread::hardware_concurrency', 'omp_get_num_procs', 'get_nprocs', '__sched_cpucount',
            'get_nprocs_conf',
            'tbb::detail::d1::info::default_concurrency')
# queries that exist but do not report the configured limit
WRONG_GETTERS = ('omp_get_num_threads', 'omp_get_thread_num', 'omp_get_thread_limit', 'omp_get_num_procs',
                 'omp_get_dynamic')
THREAD_CREATE = ('enki::ThreadCreate', 'pthread_create', 'CreateThread', 'std::thread::thread')


def is_api(q):
    return q.startswith('tbb::') or q.startswith('enki::') or q.startswith('omp_')


def is_hw(q):
    return q in HW_CALLS


def is_limit(cfg, ev):
    """is event `ev` an application of the thread limit for this backend?"""
    q, args = ev[1], ev[3]
    if cfg == 'TBB':
        if not RX_GC_CTOR.match(q) or len(args) != 2:
            return False
        par = strip_site(args[0])
        return isinstance(par, tuple) and par[0] == 'enum' and bool(RX_GC_PAR.match(par[1]))
    if cfg == 'OMP':
        return q == 'omp_set_num_threads' and len(args) == 1
    if cfg == 'INTERNAL':
        return q == ENKI_INIT and len(args) in (0, 1)       # Initialize() == Initialize(GetNumHardwareThreads()), see R-C13-5
    return False


def limit_value(cfg, ev):
    if cfg == 'INTERNAL' and not ev[3]:
        return Poly.atom(('hw', 'enki::TaskScheduler::Initialize()', ev[4]))
    return ev[3][1] if cfg == 'TBB' else ev[3][0]


def rng(b):
    lo, hi = b
    f = lambda x: '-inf' if x == -INF else 'inf' if x == INF else str(int(x))
    return '[%s, %s]' % (f(lo), f(hi))


def one_fn(ctx, tu, q, rule):
    fs = [f for f in tu.fns(q=q, dep=False) if tu.cfg(f) is not None]
    if len(fs) != 1:
        ctx.broken('%s: anchor %s not found in %s [%s] (%d definitions)' % (rule, q, tu.unit, tu.config, len(fs)))
        return None
    return fs[0]


def mentions_only(v, atom):
    """value is a polynomial over `atom` and constants only"""
    if not isinstance(v, Poly):
        return False
    return all(a == atom for a in v.atoms(deep=False))


def clamp_of(v, N):
    """(kind, other operand, recognised) if v is min(n, X) / max(n, X) (possibly converted); recognised = X is a constant or a
    hardware-derived count, i.e. the result provably differs from n for some n"""
    while isinstance(v, Poly):
        a = v.as_atom()
        if isinstance(a, tuple) and a and a[0] == 'conv':
            v = a[2]
        else:
            break
    a = v.as_atom() if isinstance(v, Poly) else None
    if not (isinstance(a, tuple) and a and a[0] in ('min', 'max') and len(a) == 3):
        return None
    ops = [a[1], a[2]]
    for me, other in (ops, ops[::-1]):
        if isinstance(me, Poly) and me.as_atom() == N:
            so = strip_site(other)
            rec = (isinstance(other, Poly) and other.is_const()) or (isinstance(so, tuple) and so and so[0] == 'hw')
            return a[0], other, rec
    return None


def clamp_is_identity(cl, N, p):
    """min(n, X) / max(n, X) equals n for every n of the path's range"""
    kind, other, _ = cl
    if not isinstance(other, Poly):
        return False
    nlo, nhi = p.bounds(N)
    olo, ohi = other.range(p.bounds)
    return nhi <= olo if kind == 'min' else nlo >= ohi


def owner_root(p, obj, depth=0):
    """the global cell that (transitively) holds object `obj` when the path ends, or None: a global holds it directly, or it
    is a member / is held by a member of an object that a global holds"""
    if obj is None or depth > 4:
        return None
    if isinstance(obj, tuple) and obj and obj[0] == 'glob':
        return obj
    if isinstance(obj, tuple) and obj and obj[0] == 'field':
        return owner_root(p, obj[1], depth + 1)             # a data member lives as long as its object
    for loc, v in p.stores().items():
        if isinstance(v, Poly) and v.as_atom() == obj:
            if loc[0] == 'glob':
                return loc
            if loc[0] == 'field':
                r = owner_root(p, loc[1], depth + 1)
                if r is not None:
                    return r
    return None


NEUTRAL_BACKEND_CALLS = ('enki::TaskScheduler::TaskScheduler', 'enki::GetNumHardwareThreads', 'omp_get_max_threads',
                         'omp_set_max_active_levels', 'omp_set_nested', 'omp_set_dynamic', 'omp_get_num_procs')


def unrecognised_backend_calls(p, cfg):
    """calls into the backend on this path that are neither the limit API nor known to be irrelevant for the limit"""
    out = []
    for e in p.events:
        if e[0] != 'call' or not is_api(e[1]) or is_limit(cfg, e):
            continue
        if e[1] in NEUTRAL_BACKEND_CALLS or RX_GC_GET.match(e[1]) or e[1].startswith('enki::Semaphore'):
            continue
        out.append(e)
    return out


def approx_only_compares_n_with_hardware(p, N):
    """If every unrefined comparison of path p relates n to hardware-derived counts only, a description of that count; else None"""
    pcs = [k[1] for k in p.state.d if isinstance(k, tuple) and k[0] == 'pc']
    if not pcs or len(p.approx) > len(pcs):
        return None
    names = []

    def ok_atom(a):
        if a == N:
            return True
        if isinstance(a, tuple) and a:
            if a[0] == 'hw':
                names.append(show_val(Poly.atom(a)))
                return True
            if a[0] == 'conv' and isinstance(a[2], Poly):
                return all(ok_atom(x) for x in a[2].atoms(deep=False))
        return False
    for r in pcs:
        if not all(ok_atom(a) for a in r.p.atoms(deep=False)) or N not in r.p.atoms(deep=False):
            return None
    if not all('is not a linear comparison of one value' in a for a in p.approx):
        return None
    return names[0] if names else None


_ALL_PATHS = []     # the paths of the entry currently judged (set by check_init) - lets path_conditions tell relevant facts apart


def guard_note(p):
    """If path p is selected by a persistent flag that the same function sets and later clears with plain statements on its other
    paths, say so: an exception between the two leaves the flag set for good."""
    for k, v in p.state.d.items():
        if not (isinstance(k, tuple) and k[0] == 'fact' and isinstance(k[1], tuple) and k[1][0] == 'glob' and v[0] >= 1):
            continue
        F = k[1]
        for q in _ALL_PATHS:
            sets = [i for i, e in enumerate(q.events) if e[0] == 'store' and e[1] == F and isinstance(e[2], Poly) and (e[2].as_int() or 0) != 0]
            clears = [i for i, e in enumerate(q.events) if e[0] == 'store' and e[1] == F and isinstance(e[2], Poly) and e[2].as_int() == 0]
            if sets and clears and sets[0] < clears[-1]:
                between = [e for e in q.events[sets[0]:clears[-1]] if e[0] == 'call']
                return ('; `%s` is a guard this function sets itself (%s) and clears again only by a plain statement at the end (%s): if anything '
                        'in between throws (%s), the guard stays set and every later initTaskingSystem() takes this path'
                        % (F[1].split('::')[-1], q.events[sets[0]][3], q.events[clears[-1]][3],
                           'e.g. ' + between[0][1].split('::')[-1] if between else 'operator new / the handle constructor'))
    return ''


def path_conditions(p, N):
    """the facts other than the range of n that single out path p, as text (which early return / branch was taken).  A fact is
    mentioned only if some other path with the opposite fact leaves different events behind (otherwise it is an unrelated
    branch such as flushDenormals)."""
    out = []
    sig = lambda q: tuple(e[:2] for e in q.events if e[0] == 'store' or (e[0] == 'call' and is_api(e[1])))
    for k, v in p.state.d.items():
        if not (isinstance(k, tuple) and k[0] == 'fact') or k[1] == N:
            continue
        lo, hi = v
        others = [q for q in _ALL_PATHS if q is not p and q.state.get(k) is not None and
                  (q.state.get(k)[1] < lo or q.state.get(k)[0] > hi)]
        if _ALL_PATHS and any(sig(q) == sig(p) for q in others):
            continue        # the same outcome is reached with the opposite value: the fact does not select this behaviour
        what = show_val(Poly.atom(k[1]))
        out.append('%s %s' % (what, 'is null/false' if (lo, hi) == (0, 0) else 'is non-null/true' if lo >= 1 else 'in [%s, %s]' % (lo, hi)))
    return ' on the path where ' + ' and '.join(sorted(out)[:4]) + ': the (re-)initialisation is silently ignored there' if out else ''


def hw_positive(v, p):
    """Is `v` a hardware-derived count that is positive whenever the platform counts are (each >= 1)?
    True / False (hardware-derived but can be < 1: recognised wrong) / None (not an expression over hardware counts only)."""
    while isinstance(v, Poly):
        a = v.as_atom()
        if isinstance(a, tuple) and a and a[0] == 'conv':
            v = a[2]
        else:
            break
    if not isinstance(v, Poly) or v.is_const():
        return None

    def only_hw(x):
        if isinstance(x, Poly):
            return all(only_hw(a) for a in x.atoms(deep=False))
        if isinstance(x, tuple) and x:
            if x[0] == 'hw':
                return True
            if x[0] in ('min', 'max', 'conv'):
                return all(only_hw(y) for y in x[1:] if isinstance(y, (Poly, tuple)))
        return False
    if not only_hw(v):
        return None
    lo, _hi = v.range(p.bounds)
    return lo >= 1


def final_value(p, loc):
    """value a location holds at the end of path p (its entry value if never stored)"""
    v = p.mem(loc)
    return v if v is not None else Poly.atom(loc)


def report(ctx, p, rule, inst, why, loc, key):
    """violation, unless the path is an over-approximation (then the instance is undecided)"""
    if p is not None and p.approx:
        ctx.undecided(rule, inst, '%s -- but the path is approximate: %s' % (why, '; '.join(p.approx)), loc)
    else:
        ctx.violation(rule, inst, why, loc, key=key)


# ================================================================================================
def check_query(ctx, cfg, tus, tag):
    """R-C13-2 / R-C13-3; returns (G, GT): global handle location, and (INTERNAL) the global the getter reads"""
    R2, R3 = 'R-C13-2', 'R-C13-3'
    tu = tus[0]
    f = one_fn(ctx, tu, QUERY, R2)
    if f is None:
        return None, None
    fl = Flow(tus, api=is_api, hw=is_hw)
    try:
        paths = fl.analyse(0, f)
    except RuntimeError as e:
        ctx.undecided(R2, 'numTaskingThreads [%s]' % tag, 'value-flow analysis did not converge: %s' % e, tu.fn_loc(f))
        return None, None
    file = tu.fn_file(f)
    # the global handle = the one global whose nullness the function tests
    globs = set()
    for p in paths:
        for k in p.state.d:
            if isinstance(k, tuple) and k[0] == 'fact' and isinstance(k[1], tuple) and k[1][0] == 'glob':
                globs.add(k[1])
    inst0 = 'numTaskingThreads [%s]' % tag
    _MODE.pop(tag, None)
    _MODE.pop((tag, 'cache'), None)
    rets = {strip_site(p.ret) if (p.kind == 'return' and p.ret is not None) else None for p in paths}
    if not globs and len(rets) == 1 and isinstance(next(iter(rets)), tuple) and next(iter(rets))[0] == 'glob':
        # "published count": the function returns the content of one global cell that initTaskingSystem fills.
        # Before initialisation the cell must hold 0 (static initial value); what is stored is judged in check_init.
        C = next(iter(rets))
        _MODE[tag] = 'published'
        init0 = static_initial_value(tu, f, C)
        if init0 == 0:
            ctx.ok(R3, inst0 + ' count published in `%s`' % C[1].split('::')[-1], 'the cell is statically initialised to 0', tu.fn_loc(f))
        elif init0 is None:
            ctx.undecided(R3, inst0, 'cannot determine the static initial value of `%s`, which numTaskingThreads returns before '
                          'initTaskingSystem' % C[1].split('::')[-1], tu.fn_loc(f))
        else:
            ctx.violation(R3, inst0, '`%s`, which numTaskingThreads returns, is statically initialised to %s: before initTaskingSystem '
                          'the function returns %s, required: 0' % (C[1].split('::')[-1], init0, init0), tu.fn_loc(f),
                          key='%s|%s|numTaskingThreads|%s:uninitialised-not-0' % (R3, file, cfg))
        return C, None
    if len(globs) != 1:
        # no test of any global at all: every path admits the uninitialised state
        if not globs and all(p.kind == 'return' and p.ret is not None and p.ret.as_int() != 0 for p in paths):
            ctx.violation(R3, inst0, 'numTaskingThreads never tests whether the tasking system was initialised: it returns %s '
                          'instead of 0 before initTaskingSystem' % ', '.join(sorted({show_val(p.ret) for p in paths})),
                          tu.fn_loc(f), key='%s|%s|numTaskingThreads|%s:no-null-test' % (R3, file, cfg))
        else:
            ctx.undecided(R3, inst0, 'cannot identify the global handle whose nullness numTaskingThreads tests '
                          '(globals tested: %s)' % sorted(g[1] for g in globs), tu.fn_loc(f))
        return None, None
    G = globs.pop()
    GT = None
    check_cell_is_process_wide(ctx, cfg, tu, f, G, tag)
    lazy = [e for p in paths for e in p.events if e[0] == 'call' and is_limit(cfg, e)]
    _MODE.pop((tag, 'lazy'), None)
    if lazy:
        _MODE[(tag, 'lazy')] = lazy[0][4]
    for p in paths:
        lo, hi = p.bounds(G)
        inst = 'numTaskingThreads [%s] handle in %s' % (tag, 'null' if hi == 0 else 'non-null' if lo >= 1 else 'any state')
        if p.kind != 'return':
            ctx.undecided(R2, inst, 'a path does not return (throws or aborts)', tu.fn_loc(f))
            continue
        ret = p.ret
        if lo <= 0:
            bad = False
            derefs = [e for e in p.events if e[0] in ('nullderef', 'maybe-null-deref') and
                      (e[0] == 'nullderef' or e[1] == G)]
            if derefs:
                bad = True
                report(ctx, p, R3, inst, 'the global handle is dereferenced on a path where it can be null (before '
                       'initTaskingSystem): %s' % derefs[0][1 if derefs[0][0] == 'nullderef' else 2], derefs[0][2],
                       '%s|%s|numTaskingThreads|%s:null-handle-dereferenced' % (R3, file, cfg))
            if ret is None or ret.as_int() != 0:
                bad = True
                report(ctx, p, R3, inst, 'with a null handle (tasking system not initialised) the function returns %s, '
                       'required: 0' % show_val(ret), tu.fn_loc(f),
                       '%s|%s|numTaskingThreads|%s:uninitialised-not-0' % (R3, file, cfg))
            if not bad:
                ctx.ok(R3, inst, 'returns 0 without touching the handle', tu.fn_loc(f))
        if hi >= 1:
            rv = strip_site(ret) if ret is not None else None
            if isinstance(rv, tuple) and rv and rv[0] == 'glob' and rv != G:
                # a cached count: the function returns what it (or somebody) stored earlier in a persistent cell.  Whether the
                # cache is refreshed / invalidated whenever the limit changes is decided on initTaskingSystem (check_init).
                keys = set()
                for k2 in p.state.d:
                    if isinstance(k2, tuple) and k2[0] == 'pc' and k2[1].op == '==':
                        ats = [a for a in k2[1].p.atoms(deep=False) if isinstance(a, tuple) and a and a[0] == 'glob']
                        if G in ats:
                            keys.update(a for a in ats if a != G and a != rv)
                c0 = _MODE.get((tag, 'cache'))
                _MODE[(tag, 'cache')] = (rv, keys | (c0[1] if c0 and c0[0] == rv else set()), tu.fn_loc(f))
                continue
            want, got_ok, why = expected_getter(cfg, ret)
            if got_ok is True:
                if cfg == 'INTERNAL':
                    obj = strip_site(ret)[2]
                    obj = strip_site(obj)
                    while isinstance(obj, tuple) and obj and obj[0] == 'deref' and len(obj) == 2:
                        obj = strip_site(obj[1])         # *p designates the object p points to; objects are named by their pointer
                    if is_persistent_cell(obj):
                        GT = obj
                    else:
                        ctx.undecided(R2, inst, 'GetNumTaskThreads is called on %s, not on a global scheduler' % show_val(obj),
                                      tu.fn_loc(f))
                        continue
                ctx.ok(R2, inst, 'returns %s' % show_val(ret), tu.fn_loc(f))
            elif got_ok is False:
                report(ctx, p, R2, inst, 'with an initialised handle the function returns %s, required: %s (%s)'
                       % (show_val(ret), want, why), tu.fn_loc(f),
                       '%s|%s|numTaskingThreads|%s:wrong-getter' % (R2, file, cfg))
            else:
                ctx.undecided(R2, inst, 'returned value %s is not a recognised thread-count query (required: %s)'
                              % (show_val(ret), want), tu.fn_loc(f))
    return G, GT


def is_persistent_cell(loc):
    """a global / static variable or a data member of one"""
    if not (isinstance(loc, tuple) and loc):
        return False
    while loc[0] == 'field' and isinstance(loc[1], tuple) and loc[1]:
        loc = loc[1]
    return loc[0] == 'glob'


def find_var_decl(tu, f, name):
    """VarDecl node of the persistent variable `name` (qualified) that function f or its callees reference"""
    todo, seen = [f], set()
    while todo:
        g = todo.pop()
        if g['id'] in seen or tu.body(g) is None:
            continue
        seen.add(g['id'])
        for x in tu.walk(tu.body(g)):
            if x.get('kind') == 'DeclRefExpr' and x.get('referencedDecl', {}).get('kind') == 'VarDecl' and \
                    (tu.sd(x).get('q') == name or name.endswith('::' + (x['referencedDecl'].get('name') or '?'))):
                d = tu.node(x['referencedDecl'].get('id'))
                if d is not None:
                    return d
            if x.get('kind') in ('CallExpr', 'CXXMemberCallExpr'):
                c = tu.callee_fn(x)
                if c is not None and not c['dep']:
                    todo.append(c)
    return None


def check_cell_is_process_wide(ctx, cfg, tu, f, G, tag):
    """R-C13-11 (storage duration): the cell that carries "initialised / which handle" is one per process, not one per thread:
    initTaskingSystem configures a process-wide backend, and numTaskingThreads is called from arbitrary threads."""
    R11 = 'R-C13-11'
    d = find_var_decl(tu, f, G[1])
    inst = 'storage of `%s` [%s]' % (G[1].split('::')[-1], tag)
    if d is None:
        ctx.undecided(R11, inst, 'cannot find the declaration of the state numTaskingThreads() tests', tu.fn_loc(f))
    elif d.get('tls'):
        ctx.violation(R11, inst, '`%s`, the state numTaskingThreads() tests and initTaskingSystem() replaces, is thread_local: every thread has '
                      'its own copy, so an initialisation made on one thread is invisible on another (numTaskingThreads() is 0 there), and a '
                      're-initialisation from another thread never replaces the first handle - under TBB both global_control objects stay '
                      'alive and the smaller one wins' % G[1].split('::')[-1], tu.fn_loc(f),
                      key='%s|%s|%s|thread-local-handle' % (R11, os.path.normpath(tu.fn_file(f)), G[1].split('::')[-1]))
    else:
        ctx.ok(R11, inst, 'static storage duration: one object for all threads', tu.fn_loc(f), nontrivial=False)


_MODE = {}      # tag -> 'published' when numTaskingThreads returns a stored count instead of querying the backend


def static_initial_value(tu, f, C):
    """value a namespace-scope arithmetic / atomic variable has before any code ran (None if it cannot be read off)"""
    todo, seen = [f], set()
    while todo:
        g = todo.pop()
        if g['id'] in seen or tu.body(g) is None:
            continue
        seen.add(g['id'])
        for x in tu.walk(tu.body(g)):
            if x.get('kind') == 'DeclRefExpr' and x.get('referencedDecl', {}).get('kind') == 'VarDecl' and \
                    (tu.sd(x).get('q') == C[1] or C[1].endswith('::' + (x['referencedDecl'].get('name') or '?'))):
                d = tu.node(x['referencedDecl'].get('id'))
                if d is None:
                    return None
                lits = [y for y in tu.walk(d) if y.get('kind') in ('IntegerLiteral', 'CXXBoolLiteralExpr')]
                if not d.get('init') or not lits:
                    return 0 if not [y for y in tu.walk(d) if y.get('kind') in ('DeclRefExpr', 'CallExpr')] else None
                if len(lits) == 1:
                    v = lits[0].get('value')
                    return int(v) if not isinstance(v, bool) else int(v)
                return None
            if x.get('kind') in ('CallExpr', 'CXXMemberCallExpr'):
                c = tu.callee_fn(x)
                if c is not None and not c['dep']:
                    todo.append(c)
    return None


def expected_getter(cfg, ret):
    """-> (description of the required value, True ok / False recognised wrong / None unrecognised, reason)"""
    want = {'TBB': 'tbb::global_control::active_value(max_allowed_parallelism)', 'OMP': 'omp_get_max_threads()',
            'INTERNAL': 'enki::TaskScheduler::GetNumTaskThreads() of the global scheduler', 'DEBUG': 'literal 1'}[cfg]
    if ret is None:
        return want, False, 'nothing is returned'
    c = ret.as_int()
    v = strip_site(ret)
    if cfg == 'DEBUG':
        if c == 1:
            return want, True, ''
        if c is not None:
            return want, False, 'the serial backend has exactly one thread'
    elif c is not None:
        return want, False, 'a constant does not report the configured limit'
    if isinstance(v, tuple) and v and v[0] == 'call':
        q, args = v[1], v[3]
        if cfg == 'TBB' and RX_GC_GET.match(q):
            par = strip_site(args[0]) if args else None
            if isinstance(par, tuple) and par[0] == 'enum' and RX_GC_PAR.match(par[1]):
                return want, True, ''
            return want, False, 'active_value is asked for another parameter than max_allowed_parallelism'
        if cfg == 'OMP' and q == 'omp_get_max_threads':
            return want, True, ''
        if cfg == 'INTERNAL' and q == ENKI_GET:
            return want, True, ''
        if q in WRONG_GETTERS:
            return want, False, '%s does not report the limit set by initTaskingSystem' % q
    if isinstance(v, tuple) and v and v[0] == 'hw':
        return want, False, 'the hardware thread count is not the configured limit'
    if isinstance(v, tuple) and v and v[0] == 'field':
        return want, False, 'a stored copy of the request is returned (it is -1 / not positive for n <= 0 and ignores ' \
                            'the backend)'
    if isinstance(v, tuple) and len(v) == 3 and v[0] in ('min', 'max'):
        # the configured limit combined with a second quantity: reported value == n only if that quantity never cuts in.  Quantities
        # that are documented not to follow the limit (hardware / arena concurrency, per-team OpenMP values) are recognised wrong.
        oks = [expected_getter(cfg, x)[1] for x in v[1:]]
        if oks.count(True) == 1:
            other = v[1:][1 - oks.index(True)]
            ov = strip_site(other)
            oq = ov[1] if isinstance(ov, tuple) and ov and ov[0] == 'call' else None
            if (isinstance(ov, tuple) and ov and ov[0] == 'hw') or (oq is not None and (oq in WRONG_GETTERS or
                    oq.endswith('::max_concurrency') or oq.endswith('::hardware_concurrency') or
                    oq.endswith('::default_concurrency'))):
                return want, False, 'the configured limit is combined (%s) with %s, which does not follow initTaskingSystem(n) - ' \
                                    'hardware / arena concurrency ignores the limit: for n on the other side of it the function ' \
                                    'reports that quantity, not n' % (v[0], show_val(other))
    return want, None, ''


# ================================================================================================
def check_init(ctx, cfg, tus, tag, G, GT):
    R1, R4, R8, R9, R10 = 'R-C13-1', 'R-C13-4', 'R-C13-8', 'R-C13-9', 'R-C13-10'
    tu = tus[0]
    f = one_fn(ctx, tu, INIT, R1)
    if f is None:
        return 0
    if not f['params'] or f['params'][0]['ct'] != 'int':
        ctx.broken('%s: first parameter of %s is not an int thread count' % (R1, INIT))
        return 0
    fl = Flow(tus, api=is_api, hw=is_hw)
    ctx.assume('the platform query behind the hardware-derived default (sysconf / hardware_concurrency) returns a positive '
               'count that fits int')
    try:
        paths = fl.analyse(0, f)
    except RuntimeError as e:
        ctx.undecided(R1, 'initTaskingSystem [%s]' % tag, 'value-flow analysis did not converge: %s' % e, tu.fn_loc(f))
        return 0
    N = ('param', f['params'][0]['name'] or 'arg0')
    Nv = Poly.atom(N)
    file = tu.fn_file(f)
    seen = set()
    n_inst = 0
    limit_roots = set()
    if cfg == 'TBB':
        for p in paths:
            for e in p.events:
                if e[0] == 'call' and is_limit(cfg, e):
                    r = owner_root(p, e[2].as_atom() if isinstance(e[2], Poly) else e[2])
                    if r is not None:
                        limit_roots.add(r)
    _ALL_PATHS[:] = paths
    for p in paths:
        lo, hi = p.bounds(N)
        inst = 'initTaskingSystem [%s] n in %s' % (tag, rng((lo, hi)))
        all_limits = [e for e in p.events if e[0] == 'call' and is_limit(cfg, e)]
        # limit writes made by destructors that run inside initTaskingSystem (the previous handle dying) are judged by
        # R-C13-10, not as "the" application of n
        dtor_limits, depth = [], 0
        for e in p.events:
            if e[0] == 'destroy':
                depth += 1
            elif e[0] == 'destroy-end':
                depth -= 1
            elif depth > 0 and e in all_limits:
                dtor_limits.append(e)
        limits = [e for e in all_limits if e not in dtor_limits]
        sig = (inst, p.kind, tuple((e[1], strip_site(limit_value(cfg, e))) for e in limits),
               tuple((e[1], repr(strip_site(limit_value(cfg, e)))) for e in dtor_limits),
               tuple(sorted((repr(k), repr(strip_site(v))) for k, v in p.stores().items() if k[0] == 'glob')), p.approx)
        if sig in seen:
            continue        # same behaviour reached through an unrelated branch (flushDenormals)
        seen.add(sig)
        n_inst += 1
        if p.kind != 'return':
            report(ctx, p, R1, inst, 'initTaskingSystem does not complete on this path (%s)'
                   % (', '.join('throws %s at %s' % (e[1], e[2]) for e in p.throws()) or 'noreturn call'),
                   tu.fn_loc(f), '%s|%s|initTaskingSystem|%s:does-not-return' % (R1, file, cfg))
            continue
        bad = False
        # ---- R-C13-4: the cell numTaskingThreads() tests (a handle pointer, an "initialised" flag, ...) is set on return,
        #      and a path that returns early without any effect ignores the (re-)initialisation
        if G is not None and _MODE.get(tag) == 'published':
            bad = check_published(ctx, cfg, tu, f, p, inst, tag, G, N, limits, limit_roots, file) or bad
        elif G is not None:
            hv = p.mem(G)
            ha = hv.as_atom() if hv is not None else None
            gname = G[1].split('::')[-1]
            effects = limits or [k for k in p.stores() if k[0] in ('glob', 'field')]
            if hv is None and not effects:
                bad = True
                report(ctx, p, R4, inst, 'this path returns without installing a new handle in `%s` and without any other effect on the tasking '
                       'state: a repeated initialisation keeps the previous setting%s' % (gname, path_conditions(p, N)), tu.fn_loc(f),
                       '%s|%s|initTaskingSystem|%s:handle-not-replaced' % (R4, file, cfg))
            elif hv is None and p.bounds(G)[0] >= 1:
                ctx.ok(R4, inst, '`%s` is already set on this path and stays set' % gname, tu.fn_loc(f))
            elif hv is None:
                bad = True
                report(ctx, p, R4, inst, 'this path returns without installing a new handle in `%s`, the state numTaskingThreads() tests: a '
                       'first initialisation leaves the system reporting 0 threads, a repeated one keeps the previous setting%s%s'
                       % (gname, path_conditions(p, N), guard_note(p)), tu.fn_loc(f),
                       '%s|%s|initTaskingSystem|%s:handle-not-replaced' % (R4, file, cfg))
            elif hv.as_int() == 0:
                bad = True
                report(ctx, p, R4, inst, 'this path leaves `%s` empty (null): after initTaskingSystem the system reports 0 threads '
                       'and the handle that carries the setting is gone' % gname, tu.fn_loc(f),
                       '%s|%s|initTaskingSystem|%s:handle-not-replaced' % (R4, file, cfg))
            elif (isinstance(ha, tuple) and ha[0] == 'new') or (hv.as_int() is not None and hv.as_int() != 0):
                ctx.ok(R4, inst, '%s = %s' % (gname, show_val(hv)), tu.fn_loc(f))
            elif hv.range(p.bounds)[0] >= 1:
                ctx.ok(R4, inst, '%s = %s (non-null)' % (gname, show_val(hv)), tu.fn_loc(f))
            else:
                bad = True
                ctx.undecided(R4, inst, '`%s` is assigned %s; cannot tell whether numTaskingThreads() sees the system as initialised'
                              % (gname, show_val(hv)), tu.fn_loc(f))
        # ---- R-C13-2 (cached form): numTaskingThreads hands out a count kept in a persistent cell; every (re-)initialisation must
        #      refresh that cell with the paired getter or invalidate the key the cache is guarded by
        cache = _MODE.get((tag, 'cache'))
        if cache is not None:
            C, keys, qloc = cache
            cn = C[1].split('::')[-1]
            cv = p.mem(C)
            refreshed = cv is not None and expected_getter(cfg, cv)[1] is True
            invalidated = [K for K in keys if p.mem(K) is not None and p.mem(K).as_int() == 0]
            if refreshed or invalidated:
                ctx.ok('R-C13-2', inst + ' cached count', '`%s` %s by initTaskingSystem' % (cn, 'refreshed' if refreshed else
                       'invalidated through `%s` = null' % invalidated[0][1].split('::')[-1]), tu.fn_loc(f))
            elif cv is None and not any(p.mem(K) is not None for K in keys):
                bad = True
                report(ctx, p, 'R-C13-2', 'numTaskingThreads [%s] cached count' % tag, 'numTaskingThreads returns the count cached in `%s` '
                       'whenever the handle pointer equals the remembered %s, and initTaskingSystem neither refreshes `%s` nor resets that key: '
                       'the cache is invalidated only by a *different address*, so a new handle allocated where an earlier one lived '
                       '(init(a); query; init(b); init(c); query) gets the stale count of the earlier setting - the reported count is not '
                       'the n just configured' % (cn, ', '.join('`%s`' % K[1].split('::')[-1] for K in sorted(keys)) or 'key', cn), qloc,
                       'R-C13-2|%s|numTaskingThreads|%s:stale-cached-count' % (file, cfg))
            else:
                bad = True
                ctx.undecided('R-C13-2', inst, 'numTaskingThreads returns a count cached in `%s`; initTaskingSystem writes %s to it / its key; '
                              'cannot tell whether the cache is valid afterwards' % (cn, show_val(cv)), tu.fn_loc(f))
        # ---- R-C13-1: the limit
        if cfg == 'DEBUG':
            ctx.ok(R1, inst, 'serial backend: no limit to apply', tu.fn_loc(f), nontrivial=False)
            continue
        if hi >= 1:
            if not limits:
                bad = True
                takers = [e for e in p.events if e[0] == 'call' and any(isinstance(a, Poly) and N in a.atoms() for a in e[3])]
                takers = takers or unrecognised_backend_calls(p, cfg)
                if takers:
                    # n goes somewhere / the backend is configured through a call this rule does not know: unrecognised, not wrong
                    ctx.undecided(R1, inst, '%s is called, which is not a recognised thread-limit API of this backend (%s)'
                                  % (takers[0][1], limit_name(cfg)), takers[0][4])
                else:
                    lazy_at = _MODE.get((tag, 'lazy'))
                    msg = ('for n in %s the thread limit is never handed to the backend (%s not reached)%s%s'
                           % (rng((max(lo, 1), hi)), limit_name(cfg), path_conditions(p, N),
                              '; it is only applied later, inside numTaskingThreads() (%s): a parallel_for that runs before the first query '
                              'is not limited at all' % lazy_at if lazy_at else ''))
                    hwonly = approx_only_compares_n_with_hardware(p, N)
                    if p.approx and hwonly:
                        # the only conditions the analysis could not refine compare n with a hardware-derived count: n is a free
                        # input, so the path is taken for n equal to that count
                        ctx.violation(R1, inst, msg + ' - taken when n equals %s: the backend\'s own default is not that value in general '
                                      '(affinity mask, other controls), and numTaskingThreads() then does not report n' % hwonly, tu.fn_loc(f),
                                      key='%s|%s|initTaskingSystem|%s:limit-not-applied' % (R1, file, cfg))
                    else:
                        report(ctx, p, R1, inst, msg, tu.fn_loc(f), '%s|%s|initTaskingSystem|%s:limit-not-applied' % (R1, file, cfg))
            for e in limits:
                v = limit_value(cfg, e)
                sv = strip_site(v)
                if v == Nv or sv == N:
                    continue
                bad_before = bad
                bad = True
                cl = clamp_of(v, N)
                if cl is not None and clamp_is_identity(cl, N, p):
                    bad = bad_before
                    continue            # min/max that cannot change n on this path (e.g. max(n, -1) where n >= 1)
                if cl is not None and cl[2]:
                    report(ctx, p, R1, inst, 'for n in %s %s receives `%s`: the request is clamped with %s(n, %s), so a %s n is silently replaced: the '
                           'backend does not run with (and report) the n that was asked for' % (rng((max(lo, 1), hi)), limit_name(cfg),
                           show_val(v), cl[0], show_val(cl[1]), 'larger' if cl[0] == 'min' else 'smaller'), e[4],
                           '%s|%s|initTaskingSystem|%s:limit-value-clamped' % (R1, file, cfg))
                elif mentions_only(v, N) or (isinstance(sv, tuple) and sv and sv[0] == 'hw'):
                    report(ctx, p, R1, inst, 'for n in %s %s receives `%s` instead of n' % (rng((max(lo, 1), hi)),
                           limit_name(cfg), show_val(v)), e[4], '%s|%s|initTaskingSystem|%s:limit-value-not-n' % (R1, e[4].split(':')[0], cfg))
                else:
                    ctx.undecided(R1, inst, '%s receives `%s`; cannot relate it to n' % (limit_name(cfg), show_val(v)), e[4])
        if lo <= 0:
            for e in limits:
                v = limit_value(cfg, e)
                sv = strip_site(v)
                if isinstance(sv, tuple) and sv and sv[0] == 'hw':
                    continue
                hp = hw_positive(v, p)
                if hp is True:
                    continue
                if hp is False:
                    bad = True
                    report(ctx, p, R1, inst, 'for n in %s (default requested) %s receives `%s`, which is derived from the hardware count but is 0 '
                           '(or negative) when that count is 1: the default is not a *positive* thread count - the backend is started with '
                           'no task thread at all and numTaskingThreads() reports 0 after a successful initialisation'
                           % (rng((lo, min(hi, 0))), limit_name(cfg), show_val(v)), e[4],
                           '%s|%s|initTaskingSystem|%s:default-not-positive' % (R1, e[4].split(':')[0], cfg))
                    continue
                if hi >= 1 and (v == Nv or sv == N):
                    # one path covers both signs: the guard is missing
                    pass
                bad = True
                if mentions_only(v, N):
                    report(ctx, p, R1, inst, 'for n in %s (no positive count requested) %s still receives `%s`; required: '
                           'leave the backend default or pass a hardware-derived count' % (rng((lo, min(hi, 0))), limit_name(cfg),
                           show_val(v)), e[4], '%s|%s|initTaskingSystem|%s:limit-applied-for-nonpositive-n' % (R1, e[4].split(':')[0], cfg))
                else:
                    ctx.undecided(R1, inst, 'for n <= 0 %s receives `%s`; cannot tell whether it is hardware derived'
                                  % (limit_name(cfg), show_val(v)), e[4])
            if cfg == 'INTERNAL' and not limits and hi < 1:
                bad = True
                other = unrecognised_backend_calls(p, cfg)
                if other:
                    ctx.undecided(R1, inst, 'for n <= 0 the scheduler is set up through %s, which is not a recognised API (%s)'
                                  % (other[0][1], limit_name(cfg)), other[0][4])
                else:
                    report(ctx, p, R1, inst, 'for n <= 0 the scheduler is never initialised (Initialize not reached)', tu.fn_loc(f),
                           '%s|%s|initTaskingSystem|%s:limit-not-applied' % (R1, file, cfg))
        # ---- ownership / pairing of the object that carries the limit
        for e in limits:
            obj = e[2].as_atom() if isinstance(e[2], Poly) else e[2]
            if cfg == 'TBB':
                if owner_root(p, obj) is None:
                    bad = True
                    report(ctx, p, R1, inst, 'the tbb::global_control created at %s (%s) is not held, directly or through the object it '
                           'belongs to, by any global when initTaskingSystem returns: the limit ends when that object dies, or can '
                           'never be replaced' % (e[4], show_val(e[2])),
                           e[4], '%s|%s|initTaskingSystem|%s:limit-object-not-owned' % (R1, file, cfg))
            if cfg == 'INTERNAL' and GT is not None:
                cur = final_value(p, GT)
                if cur.as_atom() != obj:
                    bad = True
                    report(ctx, p, R1, inst, 'Initialize is called on %s but numTaskingThreads reads the scheduler in `%s` '
                           '(which holds %s)' % (show_val(e[2]), show_val(Poly.atom(GT)), show_val(cur)), e[4],
                           '%s|%s|initTaskingSystem|%s:scheduler-not-the-queried-one' % (R1, e[4].split(':')[0], cfg))
        # ---- R-C13-10: when the call returns, the last write to the backend limit is the one that carries the new n
        if cfg != 'DEBUG' and hi >= 1 and limits and dtor_limits:
            destroyed = [e for e in p.events if e[0] == 'destroy']
            last = all_limits[-1]               # events are in execution order along the path
            v = limit_value(cfg, last)
            if last in dtor_limits and not (v == Nv or strip_site(v) == N):
                bad = True
                dobj = destroyed[0][2].as_atom() if isinstance(destroyed[0][2], Poly) else None
                from_old = isinstance(v, Poly) and bool(v.atoms(deep=False)) and all(
                    isinstance(a, tuple) and a and a[0] == 'field' and a[1] == dobj for a in v.atoms(deep=False))
                if from_old or (isinstance(v, Poly) and v.is_const()):
                    report(ctx, p, R10, inst, 'after the new handle has applied n (%s at %s), the destructor of the previous handle '
                           '(~%s, run when the global handle is overwritten) calls %s(%s) at %s: the last write to the limit is not n, '
                           'so on every re-initialisation the setting just made is undone' % (limit_name(cfg), limits[-1][4],
                           destroyed[0][1].split('::')[-1], limit_name(cfg), show_val(v), last[4]), last[4],
                           '%s|%s|initTaskingSystem|%s:limit-overwritten-by-old-handle-destructor' % (R10, last[4].split(':')[0], cfg))
                else:
                    ctx.undecided(R10, inst, 'a destructor running inside initTaskingSystem calls %s(%s) after n was applied; cannot '
                                  'relate that value to n' % (limit_name(cfg), show_val(v)), last[4])
            else:
                ctx.ok(R10, inst, 'the last limit write carries n', last[4])
        elif cfg != 'DEBUG' and hi >= 1 and limits:
            ctx.ok(R10, inst, 'no destructor writes the limit after n was applied', tu.fn_loc(f), nontrivial=False)
        # ---- R-C13-8: whatever owned the previous setting must be gone when the call returns (TBB: the minimum over all
        #      live global_control objects is what counts, so a parked old owner keeps capping the new setting).
        #      Owners = the global cell numTaskingThreads() tests (if it is a pointer) and the global cells that hold the
        #      limit object on some path.
        roots = set(limit_roots)
        if G is not None and fl.defbounds.get(G, (0, 2))[1] > 1:
            roots.add(G)
        any_parked = False
        for Rr in sorted(roots):
            if p.bounds(Rr)[1] < 1:
                continue
            old = Poly.atom(Rr)
            parked = [loc for loc, v in p.stores().items() if loc != Rr and loc[0] in ('glob', 'field') and v == old]
            if parked and cfg == 'TBB':
                any_parked = True
                where = parked[0][1].split('::')[-1] if parked[0][0] == 'glob' else '%s of %s' % (parked[0][2], show_val(parked[0][1]))
                report(ctx, p, R8, inst, 'the previously installed handle is moved into `%s` and is still alive when initTaskingSystem '
                       'returns: its tbb::global_control keeps limiting the process (TBB uses the minimum over all live controls), so '
                       'init(2); init(8) reports and uses 2 - the previous setting is not replaced' % where, tu.fn_loc(f),
                       '%s|%s|initTaskingSystem|%s:previous-handle-kept-alive' % (R8, file, cfg))
            elif parked:
                ctx.ok(R8, inst, 'previous handle parked in %s; harmless: under this backend the handle owns no process-wide limit '
                       'object' % show_val(Poly.atom(parked[0])), tu.fn_loc(f), nontrivial=False)
            else:
                ctx.ok(R8, inst, 'no persistent cell holds the previous content of `%s` on return' % Rr[1].split('::')[-1], tu.fn_loc(f))
        # ---- R-C13-7 (effects form): under TBB the cell that owns the limit object is not emptied before the new
        #      global_control exists (between the two the process runs without the configured limit)
        if cfg == 'TBB' and limits and not any_parked:
            first_new = min(p.events.index(e) for e in limits)
            for i, e in enumerate(p.events[:first_new]):
                if e[0] == 'store' and e[1] in roots and isinstance(e[2], Poly) and e[2].as_int() == 0 and p.bounds(e[1])[1] >= 1:
                    bad = True
                    report(ctx, p, 'R-C13-7', 'initTaskingSystem [%s]' % tag, '`%s` - the cell that owns the previous tbb::global_control - is '
                           'emptied at %s before the new global_control is constructed at %s: between the two the backend runs without '
                           'the configured limit, so a parallel_for in flight on another thread is joined by all hardware threads'
                           % (e[1][1].split('::')[-1], e[3], limits[0][4]), e[3],
                           'R-C13-7|%s|initTaskingSystem|handle-gap' % INIT_FILE)
                    break
        # ---- R-C13-9: OpenMP nesting stays off on the init path (with nesting every outer thread forks its own team of n)
        if cfg == 'OMP':
            nest = [e for e in p.events if e[0] == 'call' and e[1] in ('omp_set_max_active_levels', 'omp_set_nested')]
            nbad = False
            for e in nest:
                c = e[3][0].as_int() if e[3] and isinstance(e[3][0], Poly) else None
                limit_ok = (c is not None) and (c <= 1 if e[1] == 'omp_set_max_active_levels' else c == 0)
                if limit_ok:
                    continue
                nbad = True
                if c is None:
                    ctx.undecided(R9, inst, '%s(%s): the argument is not a constant; cannot tell whether nested parallel regions are '
                                  'enabled' % (e[1], show_val(e[3][0]) if e[3] else ''), e[4])
                else:
                    report(ctx, p, R9, inst, '%s(%d) on the initialisation path enables nested parallel regions: a parallel_for called '
                           'from a parallel_for body forks its own team of n threads per outer thread, so up to n*n bodies run at '
                           'the same time' % (e[1], c), e[4], '%s|%s|initTaskingSystem|OMP:nested-parallelism-enabled' % (R9, e[4].split(':')[0]))
            if not nbad:
                ctx.ok(R9, inst, 'nesting left at the default (one active level)' if not nest else
                       '; '.join('%s(%s)' % (e[1], show_val(e[3][0])) for e in nest), tu.fn_loc(f))
        if not bad:
            ctx.ok(R1, inst, '; '.join('%s(%s)' % (limit_name(cfg), show_val(limit_value(cfg, e))) for e in limits) or
                   'backend default left in place', tu.fn_loc(f))
    return n_inst


def check_published(ctx, cfg, tu, f, p, inst, tag, C, N, limits, limit_roots, file):
    """numTaskingThreads returns the global cell C.  On every path of initTaskingSystem the value stored in C must be the
    paired getter, sampled at a point where the new limit is the only one in force: under TBB the active value is the
    minimum over all live global_control objects, so a sample taken before the previous owner is released reports the
    old limit.  -> True if something was reported."""
    R2, R4 = 'R-C13-2', 'R-C13-4'
    cname = C[1].split('::')[-1]
    hv = p.mem(C)
    if hv is None:
        effects = limits or [k for k in p.stores() if k[0] in ('glob', 'field')]
        report(ctx, p, R4, inst, 'this path returns without storing a thread count in `%s`, the value numTaskingThreads() returns%s'
               % (cname, '' if effects else ' (and without any other effect: the re-initialisation is ignored)'), tu.fn_loc(f),
               '%s|%s|initTaskingSystem|%s:handle-not-replaced' % (R4, file, cfg))
        return True
    if hv == Poly.atom(N) or strip_site(hv) == N:
        report(ctx, p, R2, inst, '`%s` (returned by numTaskingThreads) is set to the request n itself, not to what the backend was '
               'configured to: it is not positive for n <= 0 and ignores the backend' % cname, tu.fn_loc(f),
               '%s|%s|numTaskingThreads|%s:wrong-getter' % (R2, file, cfg))
        return True
    want, ok, why = expected_getter(cfg, hv)
    if ok is None:
        ctx.undecided(R2, inst, '`%s` (returned by numTaskingThreads) is set to %s, not a recognised thread-count query (required: %s)'
                      % (cname, show_val(hv), want), tu.fn_loc(f))
        return True
    if ok is False:
        report(ctx, p, R2, inst, '`%s` (returned by numTaskingThreads) is set to %s, required: %s (%s)' % (cname, show_val(hv), want, why),
               tu.fn_loc(f), '%s|%s|numTaskingThreads|%s:wrong-getter' % (R2, file, cfg))
        return True
    if cfg == 'TBB':
        sv = strip_site(hv)
        gi = next((i for i, e in enumerate(p.events) if e[0] == 'call' and e[1] == sv[1]), None)
        late = [e for i, e in enumerate(p.events) if gi is not None and i > gi and e[0] == 'store' and e[1] in limit_roots
                and p.bounds(e[1])[1] >= 1]
        if late:
            report(ctx, p, R2, inst, '`%s` (returned by numTaskingThreads) is set to %s sampled at %s, while the previous owner of the limit '
                   '(`%s`, replaced only afterwards at %s) is still alive: TBB reports the minimum over all live global_control objects, '
                   'so after init(2); init(8) the published count stays 2 although the limit becomes 8'
                   % (cname, show_val(hv), p.events[gi][4], late[0][1][1].split('::')[-1], late[0][3]), p.events[gi][4],
                   '%s|%s|initTaskingSystem|%s:count-sampled-while-previous-limit-alive' % (R2, file, cfg))
            return True
    ctx.ok(R2, inst, '%s = %s' % (cname, show_val(hv)), tu.fn_loc(f))
    return False


def limit_name(cfg):
    return {'TBB': 'tbb::global_control(max_allowed_parallelism, .)', 'OMP': 'omp_set_num_threads',
            'INTERNAL': 'enki::TaskScheduler::Initialize', 'DEBUG': '-'}[cfg]


# ================================================================================================
def check_enki(ctx, tu, tag):
    R5 = 'R-C13-5'
    fs = [f for f in tu.fns(q=ENKI_INIT, dep=False) if tu.cfg(f) is not None and len(f['params']) == 1]
    if len(fs) != 1:
        ctx.broken('%s: anchor %s(uint32_t) not found in %s' % (R5, ENKI_INIT, tu.unit))
        return 0
    f = fs[0]
    file = tu.fn_file(f)
    n = 0
    fl = Flow([tu], api=lambda q: q in THREAD_CREATE or q.startswith('enki::Semaphore') or q == 'enki::ThreadTerminate')
    this = Poly.atom(('this',))
    inst = 'enki::TaskScheduler::Initialize(uint32_t) [%s]' % tag
    try:
        paths = fl.analyse(0, f, this=this)
    except RuntimeError as e:
        ctx.undecided(R5, inst, 'value-flow analysis did not converge: %s' % e, tu.fn_loc(f))
        paths = []
    K = Poly.atom(('param', f['params'][0]['name'] or 'arg0'))
    # the argument-less overload is the "hardware default": it must be Initialize(<hardware-derived count>)
    for f0 in [x for x in tu.fns(q=ENKI_INIT, dep=False) if tu.cfg(x) is not None and not x['params']]:
        n += 1
        inst0 = 'enki::TaskScheduler::Initialize() [%s]' % tag
        try:
            ps = Flow([tu], api=lambda q: q == ENKI_INIT, hw=is_hw).analyse(0, f0, this=this)
        except RuntimeError as e:
            ctx.undecided(R5, inst0, 'value-flow analysis did not converge: %s' % e, tu.fn_loc(f0))
            continue
        okd = True
        for p in ps:
            calls = [e for e in p.events if e[0] == 'call' and e[1] == ENKI_INIT and len(e[3]) == 1]
            if p.kind != 'return' or len(calls) != 1 or strip_site(calls[0][2]) != ('this',):
                okd = False
                ctx.undecided(R5, inst0, 'does not simply forward to Initialize(count) on this scheduler', tu.fn_loc(f0))
                break
            sv = strip_site(calls[0][3][0])
            if isinstance(sv, tuple) and sv and sv[0] == 'hw':
                continue
            okd = False
            if isinstance(calls[0][3][0], Poly) and calls[0][3][0].is_const():
                ctx.violation(R5, inst0, 'the argument-less Initialize() starts %s threads, required: the hardware thread count (it is the '
                              'default selected for n <= 0)' % show_val(calls[0][3][0]), calls[0][4],
                              key='%s|%s|TaskScheduler::Initialize()|default-not-hardware-derived' % (R5, file))
            else:
                ctx.undecided(R5, inst0, 'forwards `%s`; cannot tell whether it is hardware derived' % show_val(calls[0][3][0]), calls[0][4])
            break
        if okd:
            ctx.ok(R5, inst0, 'forwards to Initialize(GetNumHardwareThreads())', tu.fn_loc(f0))
    # which member does GetNumTaskThreads return?
    gs = [g for g in tu.fns(q=ENKI_GET, dep=False) if tu.cfg(g) is not None]
    if len(gs) != 1:
        ctx.broken('%s: anchor %s not found' % (R5, ENKI_GET))
        return 0
    gp = Flow([tu]).analyse(0, gs[0], this=this)
    fields = set()
    for p in gp:
        a = strip_site(p.ret) if p.ret is not None else None
        if p.kind == 'return' and isinstance(a, tuple) and a[0] == 'field' and a[1] == ('this',):
            fields.add(a[2])
        else:
            fields.add(None)
    n += 1
    if len(fields) != 1 or None in fields:
        ctx.undecided(R5, 'enki::TaskScheduler::GetNumTaskThreads [%s]' % tag, 'does not simply return one data member (%s)'
                      % sorted(str(x) for x in fields), tu.fn_loc(gs[0]))
        return n
    field = fields.pop()
    ctx.ok(R5, 'enki::TaskScheduler::GetNumTaskThreads [%s]' % tag, 'returns the member %s' % field, tu.fn_loc(gs[0]))
    loc = ('field', ('this',), field)
    n += 1
    bad = False
    rets = [p for p in paths if p.kind == 'return']
    if not rets:
        ctx.undecided(R5, inst, 'no returning path found', tu.fn_loc(f))
        bad = True
    wrong = []
    for p in rets:
        v = p.mem(loc)
        if not (v == K or (v is not None and strip_site(v) == K.as_atom())):
            wrong.append((p, v))
    if wrong:
        bad = True
        p, v = wrong[0]
        recognised = all(w is None or w.is_const() or mentions_only(w, K.as_atom()) for _, w in wrong)
        # the abstract paths over-approximate the real ones (loops are widened); if *every* returning path ends with a wrong
        # value the defect is real, if only some do and those are approximate the instance is undecided
        exact = len(wrong) == len(rets) or any(not q.approx for q, _ in wrong)
        msg = ('Initialize(k) can return with %s == %s, required: k (GetNumTaskThreads would not report the configured count)'
               % (field, show_val(v) if v is not None else 'its old value'))
        if recognised and exact:
            ctx.violation(R5, inst, msg, tu.fn_loc(f), key='%s|%s|TaskScheduler::Initialize|%s-not-k' % (R5, file, field))
        elif recognised:
            ctx.undecided(R5, inst, msg + ' -- only on approximate paths: ' + '; '.join(p.approx), tu.fn_loc(f))
        else:
            ctx.undecided(R5, inst, 'Initialize(k) leaves %s == %s; cannot relate it to k' % (field, show_val(v)), tu.fn_loc(f))
    if not bad:
        ctx.ok(R5, inst, '%s == k on all %d returning paths' % (field, len(rets)), tu.fn_loc(f))
    # thread creation sites
    sites = []
    for g in tu.functions.values():
        if g['dep'] or tu.cfg(g) is None or not g['q'].startswith('enki::TaskScheduler::'):
            continue
        cg = tu.cfg(g)
        for b, i, nd in cg.stmts():
            if nd.get('kind') in ('CallExpr', 'CXXConstructExpr', 'CXXMemberCallExpr') and tu.sd(nd).get('q') in THREAD_CREATE:
                sites.append((g, cg, b, nd))
    if not sites:
        ctx.broken('%s: no thread-creation call found in enki::TaskScheduler (expected one in StartThreads)' % R5)
        return n
    want = Poly.atom(loc) - 1
    # ---- the worker threads that exist when Initialize(k) returns are the ones created by this call: a scheduler that already
    #      has threads must terminate them first.  "has threads" = the bool member that the thread-creating function sets to true
    #      and that some other member clears.
    flag = None
    for g, cg, b, nd in sites:
        sets = {tu.member_of_this(tu.kids(x)[0]) for _b, _i, x in cg.stmts() if x.get('kind') == 'BinaryOperator' and x.get('opcode') == '='
                and tu.kids(x)[1].get('kind') == 'CXXBoolLiteralExpr' and tu.kids(x)[1].get('value') is True}
        clears = set()
        for h in tu.functions.values():
            if h['dep'] or tu.cfg(h) is None or h.get('recid') != g.get('recid') or h['id'] == g['id']:
                continue
            clears |= {tu.member_of_this(tu.kids(x)[0]) for _b, _i, x in tu.cfg(h).stmts() if x.get('kind') == 'BinaryOperator'
                       and x.get('opcode') == '=' and tu.kids(x)[1].get('kind') == 'CXXBoolLiteralExpr' and tu.kids(x)[1].get('value') is False}
        tested = {tu.member_of_this(tu.node(bb.cond)) for bb in cg.blocks.values() if bb.cond and tu.node(bb.cond) is not None}
        cand = (sets & clears & tested) - {None}
        if len(cand) == 1:
            flag = cand.pop()
    n += 1
    inst = 'enki::TaskScheduler::Initialize(uint32_t) restarts its threads [%s]' % tag
    if flag is None:
        ctx.undecided(R5, inst, 'cannot identify the member that records whether worker threads exist', tu.fn_loc(f))
    else:
        hb = ('field', ('this',), flag)
        stale = None
        for p in rets:
            if p.bounds(hb)[1] < 1:
                continue                        # no threads existed on entry
            cleared = any(e[0] == 'store' and e[1] == hb and isinstance(e[2], Poly) and e[2].as_int() == 0 for e in p.events)
            terminated = any(e[0] == 'call' and e[1] == 'enki::ThreadTerminate' for e in p.events)
            if not cleared and not terminated:
                stale = p
                break
        if stale is None:
            ctx.ok(R5, inst, 'every path on which threads already exist (%s) stops them before the new count takes effect' % flag, tu.fn_loc(f))
        else:
            st = next((e for e in stale.events if e[0] == 'store' and e[1] == loc), None)
            pcs = [k2[1] for k2 in stale.state.d if isinstance(k2, tuple) and k2[0] == 'pc']
            entry_only = all(isinstance(a, tuple) and a and (a[0] == 'param' or (a[0] == 'field' and a[1] == ('this',)) or a[0] == 'glob')
                             for r in pcs for a in r.p.atoms(deep=False))
            msg = ('a path of Initialize(k) on which worker threads already exist (%s) records the new count (%s = %s%s) and returns without '
                   'stopping them%s: the threads of the previous, larger configuration keep running task partitions, so parallel_for bodies '
                   'run on more threads than the k that GetNumTaskThreads() / numTaskingThreads() now report'
                   % (flag, field, show_val(stale.mem(loc)), ' at %s' % st[3] if st else '',
                      ' (taken when %s)' % ' and '.join(r.show() for r in pcs) if pcs else ''))
            if stale.approx and pcs and entry_only and all('is not a linear comparison of one value' in a for a in stale.approx):
                # the only unrefined conditions compare the argument with the scheduler's state on entry: both are free, the path exists
                ctx.violation(R5, inst, msg, st[3] if st else tu.fn_loc(f), key='%s|%s|TaskScheduler::Initialize|threads-not-restarted' % (R5, file))
            else:
                report(ctx, stale, R5, inst, msg, st[3] if st else tu.fn_loc(f), '%s|%s|TaskScheduler::Initialize|threads-not-restarted' % (R5, file))
    for g, cg, b, nd in sites:
        n += 1
        inst = 'thread creation in %s [%s]' % (g['q'], tag)
        key = '%s|%s|%s|' % (R5, tu.fn_file(g), g['q'].replace('enki::', ''))
        loops = [l for l in counted_loops(tu, cg) if b.id in l['blocks']]
        if not loops:
            ctx.undecided(R5, inst, 'the thread-creation call at %s is not inside a loop; cannot count the threads' % tu.loc(nd), tu.loc(nd))
            continue
        if len(loops) > 1:
            ctx.undecided(R5, inst, 'the thread-creation call is inside nested loops', tu.loc(nd))
            continue
        l = loops[0]
        if l['problems'] or l['modular']:
            ctx.undecided(R5, inst, 'the loop around the thread-creation call is not a canonical counted loop: %s'
                          % '; '.join(l['problems'] + ['`%s` may wrap' % t for _, t in l['modular']]), tu.loc(nd))
            continue
        if not l['every_iteration'](b.id):
            ctx.undecided(R5, inst, 'the thread-creation call is conditional inside its loop', tu.loc(nd))
            continue
        if l['step'] != 1:
            ctx.undecided(R5, inst, 'loop step is %s' % l['step'], tu.loc(nd))
            continue
        trips = l['upper'] - l['init']
        if trips == want:
            ctx.ok(R5, inst, 'loop runs %s times (main thread counts as one)' % trips.show(), tu.loc(nd))
        elif mentions_only(trips, loc):
            ctx.violation(R5, inst, 'the loop creates %s threads, required: %s (the calling thread is the n-th)'
                          % (trips.show(), want.show()), tu.loc(nd), key=key + 'thread-count')
        else:
            ctx.undecided(R5, inst, 'the loop creates %s threads; cannot relate it to %s' % (trips.show(), field), tu.loc(nd))
    # StartThreads must be reached from Initialize only after the store (events are ordered on each path)
    return n


# ================================================================================================
def check_only_init_initialises(ctx, cfg, tus, tag, G):
    """R-C13-12: "before initialisation numTaskingThreads() is 0".  The cell numTaskingThreads() tests / returns must be given a
    non-null value only by initTaskingSystem: every other entry point of the tasking-init sources (a function there that no
    other function of those sources calls - what parallel_for, schedule, ... reach) is analysed with its callees inlined; a
    path of such an entry that leaves a possibly non-null value in the cell initialises the system behind the API."""
    R12 = 'R-C13-12'
    if G is None:
        return 0
    group = []
    for ti, tu in enumerate(tus):
        for f in tu.functions.values():
            fn = os.path.normpath(tu.fn_file(f))
            if f['dep'] or tu.cfg(f) is None or not fn.startswith('rkcommon/tasking/') or not fn.endswith('.cpp') or 'enkiTS' in fn:
                continue
            group.append((ti, tu, f))
    called = set()
    for ti, tu, f in group:
        for x in tu.walk(tu.body(f)) if tu.body(f) is not None else ():
            if x.get('kind') in ('CallExpr', 'CXXMemberCallExpr', 'CXXConstructExpr', 'CXXOperatorCallExpr'):
                q = tu.sd(x).get('q')
                if q:
                    called.add(q)
    n = 0
    gname = G[1].split('::')[-1]
    for ti, tu, f in group:
        if f.get('rec') or f['q'] in (INIT, QUERY) or f['q'] in called or '(lambda' in f['q'] or '::operator' in f['q']:
            continue
        n += 1
        inst = 'entry point %s [%s]' % (f['q'].replace('rkcommon::tasking::', ''), tag)
        try:
            paths = Flow(tus, api=is_api, hw=is_hw).analyse(ti, f)
        except RuntimeError as e:
            ctx.undecided(R12, inst, 'value-flow analysis did not converge: %s' % e, tu.fn_loc(f))
            continue
        hit = None
        for p in paths:
            v = p.mem(G)
            if v is not None and v.range(p.bounds)[1] >= 1:
                hit = (p, v)
                break
        if hit is None:
            ctx.ok(R12, inst, 'does not set `%s`' % gname, tu.fn_loc(f))
            continue
        p, v = hit
        st = next((e for e in p.events if e[0] == 'store' and e[1] == G), None)
        report(ctx, p, R12, inst, '`%s`, the state numTaskingThreads() reports from, is also set (to %s, at %s) on a path of %s, which runs '
               'without initTaskingSystem (e.g. the lazy start-up when a tasking primitive is used first): numTaskingThreads() is then '
               'non-zero although the tasking system was never initialised' % (gname, show_val(v), st[3] if st else tu.fn_loc(f),
               f['q'].split('::')[-1]), st[3] if st else tu.fn_loc(f),
               '%s|%s|%s|%s:initialised-state-set-outside-init' % (R12, os.path.normpath(tu.fn_file(f)), f['q'].split('::')[-1], cfg))
    return n


def run_config(ctx, cfg, tus, tag):
    G, GT = check_query(ctx, cfg, tus, tag)
    check_only_init_initialises(ctx, cfg, tus, tag, G)
    return check_init(ctx, cfg, tus, tag, G, GT)


PF_DRIVER = 'drivers/c01_parallel.cpp'
INIT_FILE = 'rkcommon/tasking/detail/tasking_system_init.cpp'
INIT_HEADER = 'rkcommon/tasking/tasking_system_init.h'
CLIENT = 'drivers/c13_client.cpp'


def check_one_handle(ctx, tu, tag):
    """R-C13-11: one handle per program.  `tu` is a client translation unit that only includes the public header."""
    R11 = 'R-C13-11'
    n = 0
    for q in (INIT, QUERY):
        inst = '%s as seen by a client translation unit [%s]' % (q.split('::')[-1], tag)
        n += 1
        fs = [f for f in tu.fns(q=q, dep=False) if tu.cfg(f) is not None]
        if not fs:
            ctx.ok(R11, inst, 'declared only: the state lives in the library, one copy per program', 'verif:' + CLIENT, nontrivial=False)
            continue
        f = fs[0]
        fnode = tu.node(f['id']) or {}
        # persistent variables reachable from the inline body (following inline callees)
        seen, todo, found = set(), [(f, 0)], []
        while todo:
            g, depth = todo.pop()
            if g['id'] in seen or tu.body(g) is None:
                continue
            seen.add(g['id'])
            for x in tu.walk(tu.body(g)):
                k = x.get('kind')
                if k == 'DeclRefExpr' and x.get('referencedDecl', {}).get('kind') == 'VarDecl':
                    d = tu.node(x['referencedDecl'].get('id'))
                    if d is None:
                        continue
                    par = tu.par(d)
                    local = par is not None and par.get('kind') == 'DeclStmt'
                    static_dur = (not local) or d.get('storageClass') == 'static' or d.get('tls') is not None
                    ty = d.get('type', {}).get('qualType', '')
                    if static_dur and ('unique_ptr' in ty or 'shared_ptr' in ty or ty.rstrip().endswith('*')) and \
                            not d.get('constexpr') and (d, g, local) not in found:
                        found.append((d, g, local))
                elif k in ('CallExpr', 'CXXMemberCallExpr') and depth < 5:
                    c = tu.callee_fn(x)
                    if c is not None and not c['dep']:
                        todo.append((c, depth + 1))
        if not found:
            ctx.ok(R11, inst, 'inline, but the handle is reached only through out-of-line functions of the library', tu.fn_loc(f))
            continue
        bad = False
        for d, g, local in found:
            name = d.get('name')
            gnode = tu.node(g['id']) or {}
            if local:
                # function-local static: one object per program iff the enclosing function has external linkage and is inline
                if gnode.get('storageClass') == 'static' or in_anonymous_namespace(tu, gnode):
                    bad = True
                    ctx.violation(R11, inst, 'the handle `%s` is a local static of `%s`, which has internal linkage: every translation '
                                  'unit that includes the header gets its own copy of the function and of the handle' % (name, g['q']),
                                  tu.fn_loc(g), key='%s|%s|%s|per-translation-unit-handle' % (R11, os.path.normpath(tu.fn_file(g)), name))
                continue
            sc = d.get('storageClass')
            if sc == 'extern' or d.get('inline'):
                continue                    # declared here, defined once elsewhere / C++17 inline variable: one object
            if sc == 'static' or in_anonymous_namespace(tu, d):
                bad = True
                ctx.violation(R11, inst, 'the process-wide handle `%s` is a namespace-scope %s variable defined in a header and used by the inline '
                              '%s: it has internal linkage, so every translation unit gets its own handle - numTaskingThreads() returns 0 in '
                              'units that did not call initTaskingSystem themselves, and a re-initialisation from another unit never destroys '
                              'the first handle' % (name, '`static`' if sc == 'static' else 'anonymous-namespace', q.split('::')[-1]),
                              tu.fn_loc(f), key='%s|%s|%s|per-translation-unit-handle' % (R11, os.path.normpath(tu.fn_file(f)), name))
            else:
                bad = True
                ctx.undecided(R11, inst, 'the handle `%s` is a non-inline namespace-scope definition visible in a header' % name, tu.fn_loc(f))
        if not bad:
            ctx.ok(R11, inst, 'inline; handle state: %s - one object per program' % ', '.join(
                '%s (%s)' % (d.get('name'), 'local static of an inline function' if local else 'extern/inline variable')
                for d, g, local in found), tu.fn_loc(f))
    return n


PF_IMPL = 'rkcommon::tasking::detail::parallel_for_impl'
PARALLEL = 'drivers/c13_parallel.cpp'


def check_parallel_for_backend(ctx, tu, cfg, tag):
    """R-C13-14: parallel_for (header-only, compiled into the client) must run on the mechanism that the library of this
    configuration limits and reports: tbb::parallel_for under TBB, an OpenMP work-sharing loop under OMP, the enkiTS
    scheduler (parallel_for_internal) under INTERNAL, a plain loop under DEBUG - whatever other switches (-fopenmp for the
    client's own loops) the client translation unit is compiled with."""
    R14 = 'R-C13-14'
    fs = [f for f in tu.fns(q=PF_IMPL, dep=False) if tu.body(f) is not None]
    inst = 'parallel_for_impl [%s]' % tag
    if not fs:
        ctx.broken('%s: no instantiation of %s in %s [%s]' % (R14, PF_IMPL, tu.unit, tag))
        return 0
    used = set()
    where = {}
    seen, todo = set(), list(fs)
    while todo:
        g = todo.pop()
        if g['id'] in seen or tu.body(g) is None:
            continue
        seen.add(g['id'])
        for x in tu.walk(tu.body(g)):
            k = x.get('kind') or ''
            sd = tu.sd(x) if x.get('id') else {}
            q = sd.get('q', '')
            m = None
            if sd.get('k') == 'omp' or (k.startswith('OMP') and k.endswith('Directive')):
                m = 'OMP'
            elif k in ('CallExpr', 'CXXMemberCallExpr', 'CXXConstructExpr') and q.startswith('tbb::'):
                m = 'TBB'
            elif k == 'CallExpr' and q.startswith('rkcommon::tasking::detail::') and q.endswith('_internal'):
                m = 'INTERNAL'
            if m:
                used.add(m)
                where.setdefault(m, tu.loc(x))
    want = set() if cfg == 'DEBUG' else {cfg}
    names = {'OMP': 'an OpenMP work-sharing loop (#pragma omp parallel for)', 'TBB': 'tbb::parallel_for', 'INTERNAL': 'the enkiTS scheduler '
             '(parallel_for_internal)', 'DEBUG': 'a plain serial loop'}
    if used == want:
        ctx.ok(R14, inst, 'runs on %s' % (names[cfg]), tu.fn_loc(fs[0]))
    elif used - want:
        extra = sorted(used - want)[0]
        ctx.violation(R14, inst, 'in this client translation unit parallel_for_impl runs its loop on %s (%s), but the library of the %s '
                      'configuration limits and reports %s: the team size of that mechanism is never set by initTaskingSystem, so '
                      'parallel_for bodies run on the mechanism\'s own default (all hardware threads) whatever n was configured'
                      % (names[extra], where[extra], cfg, names[cfg]), where[extra],
                      key='%s|rkcommon/tasking/detail/parallel_for.inl|parallel_for_impl|%s:backend-mismatch' % (R14, tag.replace(' ', '')))
    else:
        ctx.undecided(R14, inst, 'no recognised parallel mechanism found (expected %s)' % names[cfg], tu.fn_loc(fs[0]))
    return 1


USERS = 'drivers/c13_users.cpp'


def check_no_internal_init(ctx, tus):
    """R-C13-6 (callers of initTaskingSystem): the thread count is the application's decision.  No function of rkcommon itself -
    library sources or header-only components such as AsyncLoop, parallel_for, schedule - calls initTaskingSystem(): such a
    call replaces the configured n (or initialises the system) behind the application's back."""
    R6 = 'R-C13-6'
    n = 0
    seen = set()
    for tu, tag in tus:
        for f in tu.functions.values():
            fn = os.path.normpath(tu.fn_file(f))
            if not fn.startswith('rkcommon/') or tu.body(f) is None or fn in (INIT_FILE, INIT_HEADER):
                continue
            for x in tu.walk(tu.body(f)):
                if x.get('kind') != 'CallExpr' or not x.get('id'):
                    continue
                sd = tu.sd(x)
                q = sd.get('q')
                if q is None:
                    c0 = tu.strip(tu.kids(x)[0]) if tu.kids(x) else None
                    q = tu.sd(c0).get('q') if c0 is not None else None
                if q != INIT:
                    continue
                key = (fn, re.sub(r'<.*', '', f['q']), tu.loc(x))
                if key in seen:
                    continue
                seen.add(key)
                n += 1
                args = [a for a in tu.kids(x)[1:] if a.get('kind') != 'CXXDefaultArgExpr']
                ctx.violation(R6, 'call of initTaskingSystem in %s [%s]' % (key[1].replace('rkcommon::tasking::', ''), tag),
                              '%s (%s) calls initTaskingSystem(%s) itself: the library (re-)initialises the tasking system behind the '
                              'application - the thread count the application configured (or chose not to configure) is replaced, so '
                              'numTaskingThreads() no longer returns the n of the last initTaskingSystem(n) the application made and '
                              'parallel_for may run on more threads than that n'
                              % (key[1].split('::')[-1], fn, ', '.join(tu.show(a) for a in args)), tu.loc(x),
                              key='%s|%s|%s|init-called-inside-library' % (R6, fn, key[1].replace('rkcommon::tasking::', '')))
    ctx.ok(R6, 'callers of initTaskingSystem inside rkcommon', '%d translation unit(s) scanned, %d call(s) found' % (len(tus), n),
           'rkcommon/', nontrivial=bool(tus)) if n == 0 else None
    return n


def check_declared_effects(ctx, tu, tag, reads_state):
    """R-C13-13: what the public declarations promise the compiler.  numTaskingThreads() reads state that initTaskingSystem()
    replaces, so it must not be declared __attribute__((const)) / [[gnu::const]] ("result depends on the arguments only"): the
    compiler may then reuse the result of an earlier call across an initTaskingSystem().  `pure` (may read memory, no side
    effects) is accepted for the query; initTaskingSystem must carry neither."""
    R13 = 'R-C13-13'
    n = 0
    for name, bad_attrs in (('numTaskingThreads', ('ConstAttr',)), ('initTaskingSystem', ('ConstAttr', 'PureAttr'))):
        decls = [d for d in tu.nodes.values() if d.get('kind') == 'FunctionDecl' and d.get('name') == name
                 and (d.get('mangledName') or '').startswith('_ZN8rkcommon7tasking')]
        if not decls:
            ctx.broken('%s: no declaration of rkcommon::tasking::%s visible to a client translation unit' % (R13, name))
            continue
        n += 1
        inst = 'declaration of %s as seen by a client translation unit [%s]' % (name, tag)
        hits = [(d, a) for d in decls for a in d.get('inner', []) if isinstance(a, dict) and a.get('kind') in bad_attrs]
        if hits and (name != 'numTaskingThreads' or reads_state):
            d, a = hits[0]
            attr = 'const' if a['kind'] == 'ConstAttr' else 'pure'
            ctx.violation(R13, inst, '%s is declared __attribute__((%s)), i.e. "%s", but it %s: an optimising compiler may merge two calls '
                          'that have an initTaskingSystem() between them, so client code sees the count from before the re-initialisation'
                          % (name, attr, 'the result depends on nothing but the arguments' if attr == 'const' else 'no side effects',
                             'reads the tasking state that initTaskingSystem replaces' if name == 'numTaskingThreads' else
                             'changes the tasking state'), 'rkcommon/tasking/tasking_system_init.h',
                          key='%s|rkcommon/tasking/tasking_system_init.h|%s|declared-%s' % (R13, name, attr))
        else:
            ctx.ok(R13, inst, 'no const/pure promise that the definition does not keep', 'rkcommon/tasking/tasking_system_init.h')
    return n


def in_anonymous_namespace(tu, node):
    p = tu.par(node)
    while p is not None:
        if p.get('kind') == 'NamespaceDecl' and not p.get('name'):
            return True
        p = tu.par(p)
    return False


def check_who_may_set(ctx, tus):
    """R-C13-6: the limit installed by initTaskingSystem is the only source of the team size: no OpenMP directive in rkcommon
    carries a num_threads clause (it would override omp_set_num_threads), and nobody outside tasking_system_init.cpp calls
    omp_set_num_threads / creates a tbb::global_control / creates a tbb::task_arena with an explicit concurrency."""
    R6 = 'R-C13-6'
    n = 0
    seen = set()
    for tu, tag in tus:
        for f in tu.functions.values():
            if f['dep'] or tu.cfg(f) is None or not tu.fn_file(f).startswith('rkcommon/'):
                continue
            if tu.fn_file(f).startswith('rkcommon/tasking/detail/enkiTS'):
                continue
            fname = re.sub(r'<.*', '', f['q'])
            body = tu.body(f)
            # a construction inside the generic make_unique helper is attributed to the functions that call that instantiation
            site_files = [tu.fn_file(f)]
            if fname.endswith('::make_unique'):
                site_files = sorted({tu.fn_file(c) for c in tu.functions.values() if not c['dep'] and tu.body(c) is not None
                                     and any(tu.sd(y).get('d') == f['id'] or tu.sd(y).get('def') == f['id'] for y in tu.walk(tu.body(c)))}) or site_files
            # "home" = the tasking-init component: its source file and its public header (the definitions may live in either)
            outside = any(os.path.normpath(sf) not in (INIT_FILE, INIT_HEADER) for sf in site_files)
            for x in (tu.walk(body) if body is not None else ()):
                if not x.get('id'):
                    continue
                sd = tu.sd(x)
                site = None
                if sd.get('k') == 'omp':
                    site = ('omp-directive', 'num_threads' in sd.get('clauses', []),
                            'the OpenMP directive `#pragma omp %s` carries a num_threads clause: it overrides the limit set by '
                            'initTaskingSystem (omp_set_num_threads), so parallel_for can run on more threads than configured'
                            % sd.get('directive'), 'omp-num_threads-clause')
                elif x.get('kind') in ('CallExpr',) and sd.get('q') in ('omp_set_dynamic', 'omp_set_nested', 'omp_set_max_active_levels'):
                    if outside:
                        ctx.undecided(R6, '%s in %s [%s]' % (sd.get('q'), fname, tag), '%s() changes the OpenMP execution mode outside %s; '
                                      'its effect on the team size is not modelled' % (sd.get('q'), INIT_FILE), tu.loc(x))
                    continue
                elif x.get('kind') in ('CallExpr',) and sd.get('q') == 'omp_set_num_threads':
                    site = ('omp-setter', outside,
                            '%s() is called outside %s: the configured thread limit is changed behind initTaskingSystem' % (sd.get('q'), INIT_FILE),
                            'thread-count-set-elsewhere')
                elif x.get('kind') in ('CXXConstructExpr', 'CXXTemporaryObjectExpr') and re.search(r'tbb::(detail::\w+::)?global_control::global_control', sd.get('q', '')):
                    site = ('tbb-global_control', outside,
                            'a tbb::global_control is created outside %s: a second source for the TBB parallelism limit' % INIT_FILE,
                            'thread-count-set-elsewhere')
                elif x.get('kind') in ('CXXConstructExpr', 'CXXTemporaryObjectExpr') and re.search(r'tbb::(detail::\w+::)?task_arena::task_arena', sd.get('q', '')):
                    args = [a for a in tu.kids(x) if a.get('kind') != 'CXXDefaultArgExpr']
                    a0 = tu.sd(tu.strip(args[0], casts=True)).get('ct', '') if args else ''
                    explicit = bool(args) and ('attach' not in a0) and ('task_arena' not in a0)
                    site = ('tbb-task_arena', explicit,
                            'a tbb::task_arena with an explicit concurrency is created: work submitted through it is not bound by the '
                            'configured limit', 'explicit-arena-concurrency')
                if site is None:
                    continue
                kind, bad, why, detail = site
                key = (tag, f['q'], f['fty'], kind, tu.loc(x))
                if key in seen:
                    continue
                seen.add(key)
                n += 1
                inst = '%s in %s %s [%s]' % (kind, f['q'].replace('rkcommon::tasking::', ''), f['fty'][:60], tag)
                if bad:
                    ctx.violation(R6, inst, why, tu.loc(x), key='%s|%s|%s|%s' % (R6, tu.fn_file(f), fname.replace('rkcommon::tasking::', ''), detail))
                else:
                    ctx.ok(R6, inst, 'does not override the configured limit', tu.loc(x))
    ctx.floor(R6, n, 10, 'OpenMP directives of the 8 parallel_for instantiations + the limit sites in tasking_system_init.cpp + the attached arena in schedule')


def check_no_gap(ctx, tu, tag):
    """R-C13-7: re-initialisation never leaves a window without a limit: on no path of initTaskingSystem is the global handle
    emptied (reset() / release() / = nullptr) before the new handle has been constructed (unique_ptr assignment and reset(p)
    construct the new object first and destroy the old one afterwards, so the two limits overlap)."""
    R7 = 'R-C13-7'
    fs = tu.fns(q='rkcommon::tasking::initTaskingSystem')
    if len(fs) != 1 or tu.cfg(fs[0]) is None:
        ctx.broken('%s: initTaskingSystem not found [%s]' % (R7, tag))
        return 0
    f = fs[0]
    g = tu.cfg(f)

    def is_global_handle(e):
        e = tu.strip(e, casts=True)
        return e is not None and e.get('kind') == 'DeclRefExpr' and 'g_tasking_handle' in tu.sd(e).get('q', '') or \
            (e is not None and e.get('kind') == 'DeclRefExpr' and 'unique_ptr<rkcommon::tasking::tasking_system_handle' in tu.sd(e).get('ct', '')
             and e.get('referencedDecl', {}).get('kind') == 'VarDecl')

    found = []

    def transfer(blk, i, el, st):
        if el[0] != 'S':
            return [st]
        x = tu.node(el[1])
        if x is None:
            return [st]
        k = x.get('kind')
        sd = tu.sd(x)
        if k in ('CXXMemberCallExpr', 'CXXOperatorCallExpr'):
            s_, obj, args = tu.call_parts(x)
            name = sd.get('q', '').split('::')[-1]
            args = [a for a in args if a.get('kind') != 'CXXDefaultArgExpr']
            if obj is not None and is_global_handle(obj):
                a0 = tu.strip(args[0], casts=True) if args else None
                empty_ctor = a0 is not None and a0.get('kind') in ('CXXConstructExpr', 'CXXTemporaryObjectExpr', 'InitListExpr') \
                    and not [k_ for k_ in tu.kids(a0) if k_.get('kind') != 'CXXDefaultArgExpr']
                empties = (name == 'release') or (name == 'reset' and (not args or a0.get('kind') == 'CXXNullPtrLiteralExpr')) \
                    or (name == 'operator=' and args and (a0.get('kind') == 'CXXNullPtrLiteralExpr' or empty_ctor))
                if empties:
                    return [x['id']]
        creates = (k == 'CXXNewExpr' and 'tasking_system_handle' in sd.get('aty', '')) or \
                  (k == 'CallExpr' and 'make_unique' in sd.get('q', '') and 'tasking_system_handle' in sd.get('ct', ''))
        if creates and st is not None:
            found.append((x, st))
        return [st]

    g.explore([None], transfer)
    inst = 'initTaskingSystem [%s]' % tag
    if found and tag != 'TBB':
        # under OpenMP / internal / debug the handle owns no limit object: emptying it early removes no limit
        ctx.ok(R7, inst, 'handle emptied before re-creation, but under this backend the handle owns no limit object (only '
               'numTaskingThreads() is transiently 0)', tu.fn_loc(f), nontrivial=False)
        return 1
    if found:
        x, eid = found[0]
        e = tu.node(eid)
        ctx.violation(R7, inst, 'the installed handle is emptied by `%s` (%s) before the new handle is constructed at %s: between the two the '
                      'backend runs without the configured limit, so a parallel_for in flight on another thread is joined by all hardware threads'
                      % (tu.show(e), tu.loc(e), tu.loc(x)), tu.loc(e), key='%s|%s|initTaskingSystem|handle-gap' % (R7, INIT_FILE),
                      path=['%s: %s' % (tu.loc(e), tu.show(e)), '%s: %s' % (tu.loc(x), tu.show(x))])
    else:
        ctx.ok(R7, inst, 'the new handle is constructed before the old one is released on every path', tu.fn_loc(f))
    return 1


def run(ctx):
    ctx.describe('R-C13-6', 'the limit installed by initTaskingSystem is the only source of the team size (no num_threads clause, no other '
                            'caller of the limit APIs, no arena with explicit concurrency)')
    ctx.describe('R-C13-7', 'initTaskingSystem never empties the installed handle before the new one is constructed (no window without a limit)')
    ctx.describe('R-C13-10', 'on return from initTaskingSystem the last write to the backend limit is the one carrying n: no destructor '
                             '(of the previous handle) running inside the call writes another value afterwards')
    ctx.describe('R-C13-14', 'the header-only parallel_for runs on the mechanism the library of the same configuration limits and reports, '
                             'also in client translation units compiled with -fopenmp')
    ctx.describe('R-C13-13', 'the public declarations make no const/pure promise: numTaskingThreads reads state that initTaskingSystem replaces')
    ctx.describe('R-C13-12', 'the state numTaskingThreads() reports from is set only by initTaskingSystem: no other entry point of the '
                             'tasking-init sources (lazy start-up, ...) leaves it non-null')
    ctx.describe('R-C13-11', 'the handle is one object per program: inline definitions in the public header must not reach a namespace-scope '
                             'variable with internal linkage')
    ctx.describe('R-C13-8', 'when initTaskingSystem returns no persistent cell other than the global handle holds the previous handle '
                            '(TBB: a second live global_control keeps capping the limit)')
    ctx.describe('R-C13-9', 'OpenMP: the init path does not enable nested parallel regions (omp_set_max_active_levels(k>=2), '
                            'omp_set_nested(non-zero))')
    ctx.describe('R-C13-1', 'n > 0 reaches the backend limit API as itself; n <= 0 leaves the default or passes a hardware-derived '
                            'count; the object carrying the limit is owned by the installed handle / is the queried scheduler')
    ctx.describe('R-C13-2', 'numTaskingThreads with an initialised handle returns the getter paired with the limit API')
    ctx.describe('R-C13-3', 'numTaskingThreads with a null handle returns 0 and does not dereference it')
    ctx.describe('R-C13-4', 'every path of initTaskingSystem installs a freshly created handle in the global handle')
    ctx.describe('R-C13-5', 'enkiTS: Initialize(k) records k in the member GetNumTaskThreads returns and creates exactly k-1 threads')
    ctx.assume('shipped configuration: NDEBUG (asserts are not guards)')
    ctx.assume('tbb::global_control / omp_set_num_threads / omp_get_max_threads honour their documented contracts; calls without '
               'a body in rkcommon do not modify rkcommon globals')
    ND = ('-DNDEBUG',)
    variants = [dict(simd=True, std='c++11', extra=ND)]
    if ctx.tier == 'thorough':
        variants += [dict(simd=False, std='c++11', extra=ND), dict(simd=True, std='gnu++17', extra=ND),
                     dict(simd=True, std='c++11', extra=())]
    jobs = []
    for v in variants:
        for cfg in ('TBB', 'OMP', 'INTERNAL', 'DEBUG'):
            jobs.append(dict(unit=UNIT, config=cfg, **v))
        jobs.append(dict(unit=TASKSYS, config='INTERNAL', **v))
        jobs.append(dict(unit=ENKI, config='INTERNAL', **v))
    tus = ctx.front.parse_many(jobs)
    n1 = n5 = 0
    for vi, v in enumerate(variants):
        base = vi * 6
        vt = '' if vi == 0 else (' NO_SIMD' if not v['simd'] else ' ' + v['std'] if v['std'] != 'c++11' else ' asserts-on')
        for ci, cfg in enumerate(('TBB', 'OMP', 'INTERNAL', 'DEBUG')):
            group = [tus[base + ci]]
            if cfg == 'INTERNAL':
                group += [tus[base + 4], tus[base + 5]]
            n1 += run_config(ctx, cfg, group, cfg + vt)
        n5 += check_enki(ctx, tus[base + 5], 'INTERNAL' + vt)
    pf = ctx.front.parse_many([dict(unit=PF_DRIVER, config=c) for c in ('OMP', 'TBB')])
    scan = [(pf[0], 'OMP'), (pf[1], 'TBB'), (tus[0], 'TBB lib'), (tus[1], 'OMP lib')]
    if ctx.tier == 'thorough':
        libs = [u for u in ctx.front.library_sources() if u != UNIT]
        for cfgname in ('TBB', 'OMP'):
            for u, t in zip(libs, ctx.front.parse_many([dict(unit=u, config=cfgname, extra=ND) for u in libs])):
                scan.append((t, '%s %s' % (cfgname, u.split('/')[-1])))
    check_who_may_set(ctx, scan)
    ucfgs = ('TBB', 'OMP', 'INTERNAL', 'DEBUG') if ctx.tier == 'thorough' else ('TBB', 'INTERNAL')
    utus = ctx.front.parse_many([dict(unit=USERS, config=c, extra=ND) for c in ucfgs])
    users = [(t, c + ' users') for t, c in zip(utus, ucfgs)]
    for t, c in users:
        if not [f for f in t.functions.values() if f['q'].startswith('rkcommon::tasking::AsyncLoop::AsyncLoop')]:
            ctx.broken('R-C13-6: the users driver does not instantiate AsyncLoop [%s]' % c)
    check_no_internal_init(ctx, users + [(t, g) for t, g in scan])
    pjobs = [(c, ex) for c in ('TBB', 'OMP', 'INTERNAL', 'DEBUG') for ex in ((), ('-fopenmp',)) if not (c == 'OMP' and ex)]
    n14 = 0
    for (c, ex), ptu in zip(pjobs, ctx.front.parse_many([dict(unit=PARALLEL, config=c, extra=ND + ex) for c, ex in pjobs])):
        n14 += check_parallel_for_backend(ctx, ptu, c, c + (' -fopenmp' if ex else ''))
    ctx.floor('R-C13-14', n14, 7, '4 configurations + 3 with an OpenMP-enabled client')
    ccfgs = ('TBB', 'OMP', 'INTERNAL', 'DEBUG') if ctx.tier == 'thorough' else ('TBB',)
    n11 = 0
    for cfg, ctu in zip(ccfgs, ctx.front.parse_many([dict(unit=CLIENT, config=c, extra=ND) for c in ccfgs])):
        n11 += check_one_handle(ctx, ctu, cfg)
        check_declared_effects(ctx, ctu, cfg, True)
    ctx.floor('R-C13-11', n11, 2 * len(ccfgs), 'initTaskingSystem and numTaskingThreads per client parse')
    n7 = 0
    for ci, cfg in enumerate(('TBB', 'OMP', 'INTERNAL', 'DEBUG')):
        n7 += check_no_gap(ctx, tus[ci], cfg)
    ctx.floor('R-C13-7', n7, 4, 'initTaskingSystem under the 4 backends')
    ctx.floor('R-C13-1', n1, 7 * len(variants), 'paths x backends: TBB 2, OMP 2, INTERNAL 2, DEBUG 1 per variant')
    ctx.floor('R-C13-5', n5, 3 * len(variants), 'getter, Initialize, one thread-creation site per variant')
    ctx.note('not decided (declared): the number of threads simultaneously inside parallel_for bodies is a runtime quantity of the '
             'backend scheduler; no sound static argument reaches it')
    from rkstatic import selftest
    selftest.run(ctx)
