"""C14 - aligned allocation returns aligned, usable, correctly released memory.

Decided statically:
  R-C14-1  per allocator configuration of rkcommon/memory/malloc.cpp (TBB scalable allocator; _mm_malloc for the other
           three backends; posix_memalign on arm64 macOS) alignedMalloc hands (size, align) unchanged and in the right
           positions to an *aligned* allocation primitive and returns its result (or null), alignedFree hands ptr
           unchanged to the release primitive of the *same family*.
  R-C14-2  aligned_allocator<T,A>::allocate(n), every instantiation of drivers/c14_alloc.cpp, by value-flow with
           path splitting on n: requests n > SIZE_MAX/sizeof(T) end in std::length_error before any allocation;
           requests that fit never do; the size handed on is n*sizeof(T) (cannot wrap on any path that reaches the
           call); the alignment handed on is the template argument A; a null result ends in std::bad_alloc; otherwise
           the result is returned; max_size() == SIZE_MAX/sizeof(T); deallocate(p, .) -> alignedFree(p).
  R-C14-3  the typed overload memory::alignedMalloc<T>(count, align): the product count*sizeof(T) cannot wrap on a
           path that reaches the allocation, and (size, align) are passed on unchanged.
  R-C14-5  aligned_allocator::construct(p, t) places a copy of t at p through T's copy constructor; a memcpy is accepted only
           for trivially copyable T (std::vector relocates elements through it: "elements survive reallocation unchanged").
  R-C14-6  a member of aligned_allocator that is declared noexcept has no throwing path (allocate's length_error / bad_alloc
           must be able to reach the caller).
  R-C14-7  alignedMalloc writes (memset/memcpy-like calls, indexed stores) only inside [block, block + size).
  R-C14-8  lock discipline of helper records in malloc.cpp (statistics tables, caches): a data member that some member function
           accesses while holding the record's mutex is never accessed without it outside constructors/destructor.
  R-C14-9  alignedMalloc and alignedFree are compiled on the same side of the library / includer boundary (both bodies in
           malloc.cpp, or both in a header); if one is inline in a header its #if ladder is evaluated with the includer's macros, so
           the release family must match the allocation family for every pair (library configuration, includer configuration).
  R-C14-4  isAligned(p, a) is  p % a == 0  (or the equivalent mask test).
  W-C14    static_assert witnesses: AlignedVector<T> is std::vector<T, aligned_allocator<T,64>>, the allocator that
           std::vector really allocates through (allocator_traits::rebind_alloc<T>) is aligned_allocator<T,64>, its
           pointer type is T*.

Not decided: what the back-end allocators return (alignment and extent of the block, heap integrity) and how
std::vector uses the allocator (element survival across reallocation).
"""
import re

from rkstatic.x_expr import INF, Poly, Rel
from rkstatic.x_valueflow import Flow, is_assert_path, show_val, strip_site

LEVEL = 'other'
EXPLANATION = (
    "For each allocator configuration of malloc.cpp (TBB scalable allocator, _mm_malloc, posix_memalign) a value-flow "
    "analysis decides that alignedMalloc/alignedFree pass (size, align) / ptr unchanged to a matching aligned "
    "allocate/release pair.  For nine instantiations of aligned_allocator<T,A> an inlining value-flow analysis with exact "
    "path splitting on the request size n decides that allocate throws std::length_error exactly for n > "
    "SIZE_MAX/sizeof(T) and before allocating, that the size product n*sizeof(T) cannot wrap where it is computed, that "
    "the template alignment A is what reaches alignedMalloc, that a null result becomes std::bad_alloc, that "
    "max_size() is SIZE_MAX/sizeof(T) and that deallocate releases through alignedFree; any guard with the same "
    "meaning is accepted because conditions are evaluated over integer intervals, not matched.  static_assert witnesses "
    "decide that AlignedVector<T> allocates through aligned_allocator<T,64>.  Not decided: the behaviour of the "
    "back-end allocators (alignment, extent, heap integrity) and of std::vector (element survival).")

MALLOC = 'rkcommon/memory/malloc.cpp'
DRIVER = 'drivers/c14_alloc.cpp'
WITNESS = 'witness/c14_types.cpp'
AM = 'rkcommon::memory::alignedMalloc'
AF = 'rkcommon::memory::alignedFree'
ALLOC = 'rkcommon::containers::aligned_allocator'
SIZE_MAX = 2 ** 64 - 1

# aligned allocation primitives: argument positions and the release function of the family
FAMILIES = {
    'scalable_aligned_malloc': dict(size=0, align=1, free='scalable_aligned_free'),
    '_mm_malloc': dict(size=0, align=1, free='_mm_free'),
    '_aligned_malloc': dict(size=0, align=1, free='_aligned_free'),
    'posix_memalign': dict(out=0, align=1, size=2, free='free'),
    'aligned_alloc': dict(align=0, size=1, free='free'),
    'memalign': dict(align=0, size=1, free='free'),
}
UNALIGNED = ('malloc', 'calloc', 'realloc', 'scalable_malloc', 'scalable_calloc', 'scalable_realloc')
FREES = {f['free'] for f in FAMILIES.values()} | {'scalable_free', 'operator delete', 'operator delete[]'}


def bare(q):
    return q[5:] if q.startswith('std::') else q


def rng(lo, hi):
    f = lambda x: '-inf' if x == -INF else 'inf' if x == INF else 'SIZE_MAX' if x == SIZE_MAX else str(int(x))
    return '[%s, %s]' % (f(lo), f(hi))


def params(f):
    return [Poly.atom(('param', p.get('name') or 'arg%d' % i)) for i, p in enumerate(f['params'])]


def only_params(v, ps):
    atoms = [p.as_atom() for p in ps]
    return isinstance(v, Poly) and all(a in atoms for a in v.atoms(deep=False))


_LIB = {}       # id(driver TU) -> the malloc.cpp TU of the same configuration (bodies of out-of-line helpers of malloc.h)


def _untyped_primitive(q, fty):
    """the exported untyped alignedMalloc(size, align) / alignedFree(ptr): the boundary between the header layer and malloc.cpp"""
    sig = (fty or '').replace(' ', '').replace('noexcept', '')
    return (q == AM and sig.startswith('void*(')) or (q == AF and sig.startswith('void('))


def analyse(ctx, rule, inst, tu, f, this=None):
    lib = _LIB.get(id(tu))
    fl = Flow([tu] + ([lib] if lib is not None else []))
    if lib is not None:
        fl.api_sig = _untyped_primitive     # helpers defined in malloc.cpp are followed, the two primitives are not
    try:
        # failure branches of assert() (only present in asserts-on variants) state preconditions; they are not paths of the contract
        return [p for p in fl.analyse(0, f, this=this) if not is_assert_path(p)]
    except RuntimeError as e:
        ctx.undecided(rule, inst, 'value-flow analysis did not converge: %s' % e, tu.fn_loc(f))
        return None


def report(ctx, p, rule, inst, why, loc, key):
    if p is not None and p.approx:
        ctx.undecided(rule, inst, '%s -- but the path is approximate: %s' % (why, '; '.join(p.approx)), loc)
    else:
        ctx.violation(rule, inst, why, loc, key=key)


# ================================================================================================
#  R-C14-1
# ================================================================================================
def ev_result_bounds(p, e):
    """bounds of the value returned by the call of event e on path p (matched by callee and arguments)"""
    for k, v in p.state.d.items():
        if isinstance(k, tuple) and k[0] == 'fact' and isinstance(k[1], tuple) and k[1] and k[1][0] == 'call' \
                and k[1][1] == e[1] and k[1][3] == e[3]:
            return v
    return None


def persistent(loc):
    """a memory location that outlives the call: a global / static / thread_local or a data member of one"""
    while isinstance(loc, tuple) and loc and loc[0] == 'field':
        loc = loc[1]
    return isinstance(loc, tuple) and bool(loc) and loc[0] == 'glob'


USABLE_SIZE = ('scalable_msize', 'malloc_usable_size', '_msize', '_aligned_msize', 'malloc_size')


def check_malloc_cpp(ctx, tu, tag, keytag):
    R = 'R-C14-1'
    n = 0
    fs = [f for f in tu.fns(q=AM, dep=False) if tu.cfg(f) is not None and not f.get('targs') and len(f['params']) == 2]
    gs = [f for f in tu.fns(q=AF, dep=False) if tu.cfg(f) is not None and len(f['params']) == 1]
    if len(fs) != 1 or len(gs) != 1:
        ctx.broken('%s: anchors %s(size_t,size_t) / %s(void*) not found in %s [%s]' % (R, AM, AF, tu.unit, tag))
        return 0
    f, g = fs[0], gs[0]
    file = tu.fn_file(f)
    inst = 'alignedMalloc [%s]' % tag
    key = '%s|%s|alignedMalloc|%s:' % (R, file, keytag)
    mpaths = analyse(ctx, R, inst, tu, f)
    gpaths = analyse(ctx, R, 'alignedFree [%s]' % tag, tu, g)
    n += 2
    tokens = []             # (lo, hi, expression, loc, is-the-alignment-itself): non-block values alignedMalloc hands out
    producers = {}          # allocation primitive -> (location of the call, description of the path)
    reuse = {}              # persistent cell whose content alignedMalloc hands out again -> path
    malloc_decided = mpaths is not None
    if mpaths is not None:
        size, align = params(f)
        bad = False
        for p in mpaths:
            if p.kind != 'return' and p.throws():
                t0 = p.throws()[-1]
                nullres = [bare(e[1]) for e in p.calls(lambda q: bare(q) in FAMILIES or bare(q) in UNALIGNED)
                           if (ev_result_bounds(p, e) or (1, 1)) == (0, 0)]
                bad = True
                report(ctx, p, R, inst, 'alignedMalloc throws %s (at %s)%s; the contract is "returns either null or an aligned pointer": '
                       'a request the back end answers with null - e.g. size 0 with the TBB allocator - must come back as null, callers '
                       'such as aligned_allocator test the result and choose their own exception'
                       % (t0[1], t0[2], ' when %s returns null' % nullres[0] if nullres else ''), t0[2], key + 'throws-instead-of-null')
                continue
            if p.kind != 'return':
                ctx.undecided(R, inst, 'a path does not return (aborts)', tu.fn_loc(f))
                bad = True
                continue
            wrong = p.calls(lambda q: bare(q) in UNALIGNED)
            if wrong:
                rret = strip_site(unconv(p.ret)) if p.ret is not None else None
                raw = isinstance(rret, tuple) and rret and rret[0] == 'call' and bare(rret[1]) in UNALIGNED
                if raw:
                    bad = True
                    report(ctx, p, R, inst, 'memory is obtained from %s, which ignores the requested alignment' % wrong[0][1],
                           wrong[0][4], key + 'unaligned-allocator')
                    continue
                if p.ret is not None and p.ret.as_int() == 0:
                    rb = ev_result_bounds(p, wrong[0])
                    if rb is not None and rb[0] == rb[1] == 0:
                        continue        # the unaligned primitive failed, null is passed on
                    bad = True
                    ctx.undecided(R, inst, 'a path calls %s and returns null without the block being known to be null' % wrong[0][1],
                                  wrong[0][4])
                    continue
                v = check_manual_alignment(ctx, R, inst, key, tu, f, p, wrong, size, align, producers)
                bad = bad or not v
                continue
            al = p.calls(lambda q: bare(q) in FAMILIES)
            if not check_block_writes(ctx, inst, key, tu, f, p, al, size, align):
                bad = True
                continue
            ret = strip_site(p.ret) if p.ret is not None else None
            if p.ret is None:
                bad = True
                ctx.undecided(R, inst, 'a path returns no value', tu.fn_loc(f))
                continue
            # ---- which allocation produced the returned pointer?
            prod = None
            if isinstance(ret, tuple) and ret and ret[0] == 'call' and bare(ret[1]) in FAMILIES and 'out' not in FAMILIES[bare(ret[1])]:
                prod = next((e for e in al if e[1] == ret[1] and tuple(strip_site(a) for a in e[3]) == ret[3]), None) or \
                    next((e for e in al if e[1] == ret[1]), None)
            elif isinstance(ret, tuple) and ret and ret[0] == 'out' and bare(ret[1]) in FAMILIES and \
                    FAMILIES[bare(ret[1])].get('out') == ret[2]:
                prod = next((e for e in al if e[1] == ret[1]), None)
            is_null = p.ret.as_int() == 0
            rv0 = deconv(unconv(p.ret))
            if prod is None and not is_null and not al and isinstance(rv0, Poly) and only_params(rv0, [size, align]):
                # a value computed from the arguments alone is handed out instead of a block: an address *token* (e.g. for
                # empty requests).  It has to be a multiple of the requested alignment, and alignedFree has to recognise it.
                lin = rv0.linear_in(align.as_atom())
                if lin is not None and lin[1].as_int() == 0 and lin[0] >= 1 and lin[0].denominator == 1:
                    tlo, thi = rv0.range(p.bounds)
                    tokens.append((max(tlo, 0), thi, rv0, tu.fn_loc(f), lin[0] == 1))
                else:
                    bad = True
                    ctx.undecided(R, inst, 'a path returns the computed value `%s` instead of a block; cannot show that it is a multiple of '
                                  'the requested alignment' % show_val(p.ret), tu.fn_loc(f))
                continue
            if prod is None and not is_null:
                # neither a fresh block nor null: a block kept from an earlier release is handed out again
                v = check_reuse(ctx, R, inst, key, tu, f, p, size, align, gpaths, reuse)
                bad = bad or not v
                continue
            # ---- every other allocation on the path must have failed (else its block is dropped)
            for e in al:
                if e is prod:
                    continue
                fam = FAMILIES[bare(e[1])]
                rb = ev_result_bounds(p, e)
                failed = rb is not None and ((rb[0] == rb[1] == 0) if 'out' not in fam else (rb[0] > 0 or rb[1] < 0))
                if not failed:
                    bad = True
                    if 'out' in fam and rb is not None and rb[0] == rb[1] == 0 and is_null:
                        report(ctx, p, R, inst, 'on success of %s the function returns %s, required: the pointer it stored'
                               % (bare(e[1]), show_val(p.ret)), tu.fn_loc(f), key + 'result-not-returned')
                    elif 'out' in fam and rb is None:
                        ctx.undecided(R, inst, 'the status of %s is not tested on this path' % bare(e[1]), e[4])
                    else:
                        ctx.undecided(R, inst, 'the block obtained from %s at %s is not the value returned (%s) and is not known to be null'
                                      % (bare(e[1]), e[4], show_val(p.ret)), e[4])
            if prod is None:
                if not al:
                    pass        # returning null without allocating is allowed by the contract
                continue
            q = bare(prod[1])
            fam = FAMILIES[q]
            args = prod[3]
            if len(args) <= max(fam['size'], fam['align']):
                ctx.undecided(R, inst, 'unexpected argument list of %s' % q, prod[4])
                bad = True
                continue
            sa, aa = args[fam['size']], args[fam['align']]
            wr = [e for e in p.events if e[0] == 'wrap']
            if wr and sa != size:
                bad = True
                report(ctx, p, R, inst, 'the byte count handed to %s (`%s`) is computed with `%s`, which wraps around for sizes close to '
                       'SIZE_MAX: the request shrinks to a few bytes (or to 0, which a later fix-up turns into a small block) and '
                       'alignedMalloc reports success with a block far shorter than the caller asked for; required: null or a block '
                       'usable for the full size' % (q, show_val(sa), wr[0][1]), wr[0][2], key + 'size-computation-can-wrap')
                continue
            if sa != size and aa == align:
                slo, shi = p.bounds(size.as_atom())
                cov, why = size_covers(deconv(sa), size, 1, max(slo, 0), min(shi, SIZE_MAX), p)
                if cov is True:
                    sa = size          # at least the requested size (rounded up / padded): the block is usable for the full size
            if sa != size or aa != align:
                bad = True
                if sa == align and aa == size:
                    report(ctx, p, R, inst, '%s receives (size, align) in swapped positions: size argument is `%s`, alignment '
                           'argument is `%s`' % (q, show_val(sa), show_val(aa)), prod[4], key + 'arguments-swapped')
                elif only_params(sa, [size, align]) and only_params(aa, [size, align]):
                    report(ctx, p, R, inst, '%s receives size `%s` and alignment `%s`; required: the caller\'s size and align unchanged'
                           % (q, show_val(sa), show_val(aa)), prod[4], key + 'arguments-not-passed-through')
                else:
                    ctx.undecided(R, inst, '%s receives size `%s` and alignment `%s`; cannot relate them to the parameters'
                                  % (q, show_val(sa), show_val(aa)), prod[4])
                continue
            if 'out' in fam:
                rb = ev_result_bounds(p, prod)
                if rb is None or not (rb[0] == rb[1] == 0):
                    bad = True
                    if rb is None or rb[0] <= 0 <= rb[1]:
                        ctx.undecided(R, inst, 'the status of %s is not tested on this path' % q, prod[4])
                    else:
                        report(ctx, p, R, inst, 'on failure of %s the function returns %s, required: null' % (q, show_val(p.ret)),
                               tu.fn_loc(f), key + 'failure-not-null')
                    continue
            others = [bare(e[1]) for e in al if e is not prod]
            others = [o for o in others]
            producers.setdefault(q, (prod[4], 'after %s returned null' % ', '.join(others) if others else ''))
        if not bad and any(not isinstance(k, tuple) for k in producers):
            ctx.ok(R, inst, '%s(size, align) in the right positions, result returned%s'
                   % (' / '.join(sorted(k for k in producers if not isinstance(k, tuple))), '; blocks kept by alignedFree are handed out again only if they fit size and '
                      'align' if any(not (isinstance(c, tuple) and c[0] == 'attempted') for c in reuse) else ''), tu.fn_loc(f))
        elif not bad:
            ctx.undecided(R, inst, 'no path allocates', tu.fn_loc(f))
        malloc_decided = not bad
    # ---- alignedFree
    inst = 'alignedFree [%s]' % tag
    key = '%s|%s|alignedFree|%s:' % (R, file, keytag)
    if gpaths is not None:
        ptr = params(g)[0]
        pa = ptr.as_atom()
        bad = False
        releases = set()
        for p in gpaths:
            if p.kind != 'return':
                ctx.undecided(R, inst, 'a path does not return', tu.fn_loc(g))
                bad = True
                continue
            lo, hi = p.bounds(pa)
            if hi == 0:
                continue     # nothing to release for a null pointer
            fr = p.calls(lambda q: bare(q) in FREES)
            if not fr and tokens and all(any(tl <= max(lo, 1) and hi <= th for tl, th, _x, _l, _a in tokens) for _ in (0,)):
                continue     # only values that alignedMalloc hands out as tokens (never blocks) skip the release
            if fr and tokens:
                hit = None
                for tl, th, tx, tloc, is_align in tokens:
                    ilo, ihi = max(lo, tl, 1), min(hi, th)
                    if ilo > ihi:
                        continue
                    v = ilo
                    if is_align:                      # tokens are alignments, i.e. powers of two
                        v = 1
                        while v < ilo:
                            v *= 2
                    if v <= ihi:
                        hit = (int(v), tx, tloc)
                        break
                if hit:
                    bad = True
                    ctx.violation(R, inst, 'alignedMalloc hands out the token `%s` (a value, not a block) for some requests - among them the '
                                  'value %d - but alignedFree passes a pointer equal to %d on to %s (its test for tokens covers only ptr in '
                                  '%s on the skipping path): the token of that request is released as if it were a block'
                                  % (show_val(hit[1]), hit[0], hit[0], bare(fr[0][1]),
                                     ' / '.join(rng(*q.bounds(pa)) for q in gpaths if q.kind == 'return' and
                                                not q.calls(lambda qq: bare(qq) in FREES)) or 'nothing'), fr[0][4],
                                  key=key + 'token-released-as-block')
                    continue
            kept = [loc for loc, v in p.stores().items() if v == ptr and persistent(loc)]
            own = [e for e in fr if e[3] and (e[3][0] == ptr or is_backptr_load(e[3][0], ptr, producers))]
            evict = [e for e in fr if e[3] and isinstance(e[3][0], Poly) and e[3][0].as_atom() in kept]
            rest = [e for e in fr if e not in own and e not in evict]
            for e in fr:
                releases.add((bare(e[1]), e[4]))
            if rest:
                bad = True
                e = rest[0]
                if e[3] and only_params(e[3][0], [ptr]):
                    report(ctx, p, R, inst, '%s receives `%s` instead of the pointer passed in' % (bare(e[1]), show_val(e[3][0])), e[4],
                           key + 'pointer-not-passed-through')
                else:
                    ctx.undecided(R, inst, '%s receives `%s`' % (bare(e[1]), show_val(e[3][0]) if e[3] else 'nothing'), e[4])
                continue
            if len(own) > 1:
                bad = True
                report(ctx, p, R, inst, 'the block is released twice on one path (%s, %s)' % (own[0][1], own[1][1]), own[1][4],
                       key + 'released-twice')
                continue
            if own and kept:
                bad = True
                ctx.undecided(R, inst, 'the block is released and also kept in `%s`' % show_val(Poly.atom(kept[0])), own[0][4])
                continue
            if not own and not kept:
                bad = True
                report(ctx, p, R, inst, 'a path returns without releasing the block (no release primitive called, block not kept)',
                       tu.fn_loc(g), key + 'not-released')
                continue
            if kept:
                # the block is kept for reuse: sound only if alignedMalloc hands exactly this cell out again (checked there)
                if any(('attempted', c) in reuse and c not in reuse for c in kept):
                    bad = True          # the reuse of this cell was already reported at alignedMalloc
                    continue
                if not all(c in reuse for c in kept):
                    bad = True
                    report(ctx, p, R, inst, 'the block is stored in `%s` instead of being released, and alignedMalloc never hands that '
                           'cell out again: it is never released' % show_val(Poly.atom(kept[0])), tu.fn_loc(g), key + 'not-released')
                    continue
        # family agreement: every primitive that can produce a returned pointer must be matched by the release used
        rel_names = sorted({r for r, _ in releases})
        attempted = [k for k in producers if isinstance(k, tuple)]
        for q, (where, how) in sorted((k, v) for k, v in producers.items() if not isinstance(k, tuple)):
            if isinstance(how, dict):
                # manual alignment on top of an unaligned primitive: the release must receive the stored original pointer
                want = how['free']
                for p in gpaths:
                    if p.kind != 'return' or p.bounds(pa)[1] == 0:
                        continue
                    for e in p.calls(lambda qq: bare(qq) in FREES):
                        if e[3] and e[3][0] == ptr:
                            bad = True
                            ctx.violation(R, inst, 'alignedMalloc returns an address inside a %s chunk (the chunk start is stored %d bytes '
                                          'below it), but %s receives the returned address itself instead of the stored chunk start'
                                          % (q, -how['offset'], bare(e[1])), e[4], key=key + 'interior-pointer-released')
                for r in rel_names:
                    if r != want:
                        bad = True
                        ctx.violation(R, inst, 'a chunk obtained from %s is released with %s; required: %s' % (q, r, want),
                                      next(l for rr, l in releases if rr == r), key=key + 'family-mismatch')
                continue
            want = FAMILIES[q]['free']
            for r in rel_names:
                if r != want:
                    bad = True
                    loc = next(l for rr, l in releases if rr == r)
                    if len(rel_names) == 1:
                        ctx.violation(R, inst, 'a block that alignedMalloc obtained from %s (%s%s) is released with %s; required: %s'
                                      % (q, where, ', ' + how if how else '', r, want), loc, key=key + 'family-mismatch')
                    else:
                        ctx.undecided(R, inst, 'alignedFree uses several release primitives (%s); cannot tell which one receives the blocks '
                                      'of %s' % (', '.join(rel_names), q), loc)
        if not rel_names and not bad and malloc_decided:
            bad = True
            ctx.undecided(R, inst, 'no release primitive is called on any path', tu.fn_loc(g))
        if not bad:
            ctx.ok(R, inst, '%s(ptr), the release primitive of %s' % (' / '.join(rel_names), ' / '.join(sorted(k for k in producers if not isinstance(k, tuple))) or '?'),
                   tu.fn_loc(g))
        if mpaths is not None:
            # R-C14-9 (check_compilation_sides): which unit compiles each side, and which primitives it selects in this configuration
            wants = {}
            for q, (where, how) in producers.items():
                if not isinstance(q, tuple):
                    wants[q] = how['free'] if isinstance(how, dict) else FAMILIES[q]['free']
            _SIDES.append(dict(tag=tag, keytag=keytag, unit=tu.unit, wants=wants, rel=set(rel_names),
                               alloc=(tu.fn_file(f), tu.fn_loc(f)), free=(tu.fn_file(g), tu.fn_loc(g))))
    return n


# ================================================================================================
#  R-C14-9  the two sides are compiled under one configuration
# ================================================================================================
_SIDES = []     # one record per analysed configuration of malloc.cpp, filled by check_malloc_cpp


def check_compilation_sides(ctx):
    """alignedMalloc and alignedFree select their back end with the preprocessor.  A side whose body lies in malloc.cpp is compiled
    once, with the configuration of the library build; a side whose body lies in a header is compiled again in every including
    translation unit, with *that* unit's macros (RKCOMMON_TASKING_* are command-line definitions, no installed header fixes them).
    If the two sides are compiled on different sides of that boundary, every (library configuration, includer configuration) pair is
    possible and the release primitive picked by one must match the allocation primitive picked by the other in each of them."""
    R = 'R-C14-9'
    n = 0
    for L in _SIDES:
        n += 1
        inst = 'alignedMalloc / alignedFree compiled under one configuration [library built as %s]' % L['tag']
        a_hdr = L['alloc'][0] != L['unit']
        f_hdr = L['free'][0] != L['unit']
        if a_hdr == f_hdr:
            ctx.ok(R, inst, 'both bodies are compiled in %s (%s, %s): one set of macros selects both primitives'
                   % ('the including unit' if a_hdr else 'the library unit', L['alloc'][0], L['free'][0]), L['free'][1])
            continue
        bad = None
        for C in _SIDES:
            # the header side as an includer configured like C compiles it, the other side as the library configured like L does
            wants = (C if a_hdr else L)['wants']
            rel = (C if f_hdr else L)['rel']
            for q, want in sorted(wants.items()):
                for r in sorted(rel):
                    if r != want and bad is None:
                        bad = (C, q, r, want)
        hdr_name, hdr = ('alignedMalloc', L['alloc']) if a_hdr else ('alignedFree', L['free'])
        lib_name, lib = ('alignedFree', L['free']) if a_hdr else ('alignedMalloc', L['alloc'])
        if bad is None:
            ctx.ok(R, inst, '%s is defined in the header %s and compiled by the includer, %s in %s; every analysed configuration selects '
                   'the same family on both sides' % (hdr_name, hdr[0], lib_name, lib[0]), hdr[1])
            continue
        C, q, r, want = bad
        ctx.violation(R, inst, '%s is defined inline in the header %s, so its preprocessor ladder is evaluated with the macros of each '
                      'including translation unit, while %s stays in %s and is compiled once with the library\'s configuration; the '
                      'RKCOMMON_TASKING_* macros that select the back end are command-line definitions, not fixed by any header.  '
                      'Library built as [%s] and includer compiled as [%s]: a block obtained from %s is released with %s; required: %s '
                      '(both sides must be compiled in the same unit, or select a back end that does not depend on the includer)'
                      % (hdr_name, hdr[0], lib_name, lib[0], L['tag'] if not a_hdr else C['tag'], C['tag'] if not a_hdr else L['tag'],
                         q, r, want), hdr[1],
                      key='%s|%s|%s|%s:backend-selected-by-includer' % (R, hdr[0], hdr_name, L['keytag']))
    return n


REALLOCS = ('scalable_aligned_realloc', 'scalable_realloc', 'realloc', '_aligned_realloc', 'reallocarray')
WRITERS = {'memset': (0, 2), 'memcpy': (0, 2), 'memmove': (0, 2), '__builtin_memset': (0, 2), '__builtin_memcpy': (0, 2),
           'bzero': (0, 1), 'explicit_bzero': (0, 1)}       # name -> (index of destination, index of length)


def check_block_writes(ctx, inst, key, tu, f, p, al, size, align):
    """R-C14-7: alignedMalloc may write only inside the `size` bytes it obtained: every memset/memcpy-like call and every
    indexed store whose destination is computed from a freshly allocated block must stay within [block, block + size).
    A write that starts at or behind block + size with a length that can be positive is outside whatever the alignment (the
    primitive guarantees `size` bytes, not the rest of an alignment unit).  -> False if something was reported."""
    R7 = 'R-C14-7'
    blocks = []
    for k in p.state.d:
        if isinstance(k, tuple) and k[0] == 'fact' and isinstance(k[1], tuple) and k[1] and k[1][0] == 'call' and \
                bare(k[1][1]) in FAMILIES and 'out' not in FAMILIES[bare(k[1][1])]:
            blocks.append(Poly.atom(k[1]))
    if p.ret is not None:
        ra = unconv(p.ret).as_atom() if isinstance(unconv(p.ret), Poly) else None
        if isinstance(ra, tuple) and ra and ra[0] == 'call' and bare(ra[1]) in FAMILIES and Poly.atom(ra) not in blocks:
            blocks.append(Poly.atom(ra))
    if not blocks:
        return True
    writes = []
    for e in p.events:
        if e[0] == 'call' and bare(e[1]) in WRITERS and len(e[3]) > max(WRITERS[bare(e[1])]):
            di, li = WRITERS[bare(e[1])]
            writes.append((deconv(unconv(e[3][di])), deconv(e[3][li]), '%s(...)' % bare(e[1]), e[4]))
    for loc, v in p.stores().items():
        if loc[0] == 'elem' and len(loc) == 4 and isinstance(loc[1], Poly) and isinstance(loc[2], Poly) and loc[3]:
            writes.append((deconv(unconv(loc[1])) + loc[2] * loc[3], Poly.const(loc[3]), 'an indexed store', tu.fn_loc(f)))
    fine = True
    for dst, length, what, where in writes:
        blk = next((b for b in blocks if isinstance(dst, Poly) and b.as_atom() in dst.atoms(deep=False)), None)
        if blk is None:
            continue
        off = dst - blk
        olo, ohi = off.range(p.bounds)
        llo, lhi = length.range(p.bounds)
        slack_lo, _ = (size - off - length).range(p.bounds)
        blo, _bhi = p.bounds(blk.as_atom())
        if blo <= 0 and lhi > 0:
            # the destination is computed from a block that was never tested for null on this path
            fine = False
            ctx.violation(R7, inst, '%s at %s writes through the block obtained from %s without testing it for null: when the back end refuses '
                          'the request, alignedMalloc dereferences a null pointer instead of returning null to the caller'
                          % (what, where, bare(blk.as_atom()[1])), where,
                          key=key.replace('R-C14-1', R7) + 'write-through-unchecked-null-block')
            continue
        inside = slack_lo >= 0 or bool(p.state.get(('pc', Rel.make(size - off - length, '>=', 0))))
        if olo >= 0 and inside:
            continue                                            # provably inside the block (interval or a comparison known on the path)
        fine = False
        beyond_lo, _ = (off - size).range(p.bounds)
        if beyond_lo >= 0 and lhi > 0:
            ctx.violation(R7, inst, '%s at %s writes up to %d byte(s) starting at block + `%s`, i.e. at or behind the end of the `%s` bytes '
                          'that were requested: those bytes belong to neighbouring allocations or to the allocator (the primitive '
                          'guarantees %s bytes, not the rest of an alignment unit), so allocating a block overwrites other live blocks'
                          % (what, where, int(lhi), off.show(), show_val(size), show_val(size)), where,
                          key=key.replace('R-C14-1', R7) + 'write-outside-requested-block')
        elif ohi < 0:
            ctx.violation(R7, inst, '%s at %s writes in front of the block (offset `%s`)' % (what, where, off.show()), where,
                          key=key.replace('R-C14-1', R7) + 'write-outside-requested-block')
        else:
            ctx.undecided(R7, inst, '%s at %s writes `%s` bytes at block + `%s`; cannot show that it stays inside the %s requested bytes'
                          % (what, where, length.show(), off.show(), show_val(size)), where)
    return fine


UNALIGNED_FREE = {'malloc': 'free', 'calloc': 'free', 'realloc': 'free', 'scalable_malloc': 'scalable_free',
                  'scalable_calloc': 'scalable_free', 'scalable_realloc': 'scalable_free'}
MALLOC_ALIGN = 16       # alignment of chunks returned by the unaligned primitives (glibc / tbbmalloc on LP64)


def deconv(v):
    """polynomial with integral conversions removed everywhere (pointer/size arithmetic read over the integers)"""
    if not isinstance(v, Poly):
        return v
    m = {}
    for a in v.atoms(deep=False):
        if isinstance(a, tuple) and a and a[0] == 'conv' and isinstance(a[2], Poly):
            m[a] = deconv(a[2])
    return v.subst(m) if m else v


def is_backptr_load(v, ptr, producers):
    """v is the word that a manual alignment scheme stored below the block `ptr`"""
    a = v.as_atom() if isinstance(v, Poly) else None
    if not (isinstance(a, tuple) and a and a[0] == 'elem' and len(a) == 4):
        return False
    for q, (where, how) in producers.items():
        if isinstance(q, tuple) and deconv(a[1]) == ptr:
            return True         # the scheme was already judged (and reported) at alignedMalloc
        if isinstance(how, dict) and deconv(a[1]) == ptr and isinstance(a[2], Poly) and a[3] is not None and \
                a[2].as_int() is not None and a[2].as_int() * a[3] == how['offset'] and a[3] == how['width']:
            return True
    return False


def check_manual_alignment(ctx, R, inst, key, tu, f, p, raw_calls, size, align, producers):
    """A path of alignedMalloc obtains a chunk from an unaligned primitive and returns an address computed from it.
    Recognised scheme:  chunk = prim(total);  block = (chunk + k + a - 1) & -a  (the first multiple of a at or above chunk + k);
    the chunk start is stored in a word at block + offset (offset < 0);  return block.  Decided over the integers:
      * a is the requested alignment (or a power of two >= it on this path), so block is a multiple of align;
      * block + size <= chunk + total                      (the caller's bytes lie inside the chunk);
      * chunk <= block + offset for *every* admissible align (the stored word lies inside the chunk) - the distance
        block - chunk can be as small as k, or min(align, 16) when k >= 1 because chunks are 16-byte aligned.
    -> True if the path is fine."""
    producers.setdefault(('attempted', bare(raw_calls[0][1])), (raw_calls[0][4], ''))
    if len(raw_calls) != 1:
        ctx.undecided(R, inst, 'several calls of unaligned allocation primitives on one path', raw_calls[1][4])
        return False
    e = raw_calls[0]
    q = bare(e[1])
    chunk = None
    for k in p.state.d:
        if isinstance(k, tuple) and k[0] == 'fact' and isinstance(k[1], tuple) and k[1] and k[1][0] == 'call' and k[1][1] == e[1] \
                and k[1][3] == e[3]:
            chunk = Poly.atom(k[1])
    V = deconv(unconv(p.ret))
    va = V.as_atom() if isinstance(V, Poly) else None
    if chunk is None or not (isinstance(va, tuple) and va and va[0] == 'and' and len(va) == 3):
        ctx.undecided(R, inst, 'a path obtains memory from %s and returns %s; not a recognised manual alignment scheme'
                      % (q, show_val(p.ret)), e[4])
        return False
    ops = [deconv(va[1]), deconv(va[2])]
    a = P = None
    for m, other in (ops, ops[::-1]):
        if isinstance(m, Poly) and isinstance(other, Poly) and chunk.as_atom() in other.atoms(deep=False) and \
                chunk.as_atom() not in m.atoms(deep=False):
            a, P = -m, other
    if a is None:
        ctx.undecided(R, inst, 'returned address %s is not `(chunk + k + a - 1) & -a`' % show_val(p.ret), e[4])
        return False
    kpoly = P - chunk - a + 1
    k = kpoly.as_int()
    if k is None or k < 0:
        ctx.undecided(R, inst, 'returned address %s: the offset added before rounding (%s) is not a non-negative constant'
                      % (show_val(p.ret), kpoly.show()), e[4])
        return False
    bnd = p.bounds
    alo, ahi = a.range(bnd)
    alo = max(alo, 1)
    # ---- alignment of the result
    rlo, rhi = (a - align).range(bnd)
    if not (a == align or (rlo >= 0 and a.as_int() is not None and a.as_int() & (a.as_int() - 1) == 0)):
        if a.is_const() or only_params(a, [size, align]):
            ctx.violation(R, inst, 'the chunk from %s is aligned to `%s`, required: the requested alignment `%s`'
                          % (q, show_val(a), show_val(align)), e[4], key=key + 'manual-alignment-wrong-modulus')
        else:
            ctx.undecided(R, inst, 'the chunk from %s is aligned to `%s`; cannot relate it to `%s`' % (q, show_val(a), show_val(align)), e[4])
        return False
    # ---- extent: block + size <= chunk + total
    total = deconv(e[3][0]) if e[3] else None
    if total is None:
        ctx.undecided(R, inst, 'unexpected argument list of %s' % q, e[4])
        return False
    slack_lo, _ = (total - size - a - k + 1).range(bnd)
    if slack_lo < 0:
        if only_params(total, [size, align]) or total.is_const():
            ctx.violation(R, inst, '%s is asked for `%s` bytes, but the block can start up to `%s` bytes into the chunk: the last %d byte(s) '
                          'of the caller\'s %s bytes can lie behind the chunk' % (q, show_val(total), show_val(a + k - 1), int(-slack_lo),
                          show_val(size)), e[4], key=key + 'manual-alignment-chunk-too-small')
        else:
            ctx.undecided(R, inst, '%s is asked for `%s` bytes; cannot relate it to size + align' % (q, show_val(total)), e[4])
        return False
    # ---- the stored chunk start
    stores = [(loc, v) for loc, v in p.stores().items() if loc[0] == 'elem' and len(loc) == 4 and v == chunk
              and isinstance(loc[1], Poly) and deconv(unconv(loc[1])) == V]
    if len(stores) != 1 or stores[0][0][3] is None or not isinstance(stores[0][0][2], Poly) or stores[0][0][2].as_int() is None:
        ctx.undecided(R, inst, 'the chunk start obtained from %s is not stored in exactly one word at a constant offset from the returned '
                      'block; alignedFree cannot find it' % q, e[4])
        return False
    loc = stores[0][0]
    width = loc[3]
    offset = loc[2].as_int() * width
    # smallest distance block - chunk over all chunks and all admissible alignments of this path
    dist = k
    if k >= 1 and k <= min(alo, MALLOC_ALIGN):
        dist = min(alo, MALLOC_ALIGN)
        ctx.assume('chunks returned by malloc-like primitives are %d-byte aligned' % MALLOC_ALIGN)
    if dist + offset < 0:
        ctx.violation(R, inst, 'the chunk start is stored in the %d-byte word at block%+d, but for %s = %d the block lies only %d byte(s) '
                      'above the start of the %s chunk: the word is written %d byte(s) in front of the chunk (out-of-bounds write into '
                      'the heap\'s own bookkeeping); the scheme needs block - chunk >= %d for every alignment, i.e. %s >= %d enforced or '
                      '%d spare bytes reserved in front' % (width, offset, show_val(align), int(alo), dist, q, -(dist + offset), -offset,
                      show_val(align), -offset, -offset), e[4], key=key + 'back-pointer-outside-chunk')
        return False
    if offset + width > 0:
        ctx.undecided(R, inst, 'the chunk start is stored inside the caller\'s block (offset %+d)' % offset, e[4])
        return False
    producers.setdefault(q, (e[4], dict(free=UNALIGNED_FREE.get(q, 'free'), offset=offset, width=width)))
    return True


def check_reuse(ctx, R, inst, key, tu, f, p, size, align, gpaths, reuse):
    """A path of alignedMalloc returns a pointer V that no allocation primitive produced on this path (a block kept by an earlier
    alignedFree).  Required: V comes from a persistent cell that alignedFree fills with released blocks and that is emptied when
    the block is handed out; the path carries the fact V % align == 0 (an alignment test against a constant c only counts if
    align <= c on the path); and size <= usable size recorded together with the block.  -> True if the path is fine."""
    V = unconv(p.ret)
    va = V.as_atom() if isinstance(V, Poly) else None
    aname = align.as_atom()[1]
    if not (isinstance(va, tuple) and va and va[0] in ('field', 'glob') and persistent(va)):
        ctx.undecided(R, inst, 'a path returns %s, which is neither null nor the result of an aligned allocation primitive'
                      % show_val(p.ret), tu.fn_loc(f))
        return False
    cell = va
    reuse.setdefault(('attempted', cell), p)
    relevant_approx = [a for a in p.approx if re.search(r'\b%s\b' % re.escape(str(aname)), a)]
    # the alignment facts the path carries about V
    tests = []
    for k, v in p.state.d.items():
        if isinstance(k, tuple) and k[0] == 'fact' and isinstance(k[1], tuple) and k[1] and k[1][0] == 'mod' and len(k[1]) == 3 \
                and v == (0, 0) and unconv(k[1][1]) == V:
            tests.append(unconv(k[1][2]))
    alo, ahi = p.bounds(align.as_atom())
    aligned = False
    consts = []
    for d in tests:
        if d == align:
            aligned = True
        elif isinstance(d, Poly) and d.as_int() is not None:
            c = d.as_int()
            consts.append(c)
            if c > 0 and (c & (c - 1)) == 0 and ahi <= c:
                aligned = True      # align is a power of two not larger than the power of two c
    where = show_val(Poly.atom(cell))
    if not aligned:
        if relevant_approx:
            ctx.undecided(R, inst, 'a kept block (`%s`) is handed out again; its alignment against `%s` is decided by a condition the '
                          'analysis could not follow: %s' % (where, aname, relevant_approx[0]), tu.fn_loc(f))
        elif consts:
            ctx.violation(R, inst, 'the block kept in `%s` is handed out again after testing its alignment against the constant %d '
                          '(isAligned without the requested alignment), not against `%s`: for %s > %d the returned pointer is only '
                          '%d-byte aligned, not a multiple of the requested alignment' % (where, consts[0], aname, aname, consts[0], consts[0]),
                          tu.fn_loc(f), key=key + 'reused-block-alignment-not-checked')
        elif not tests:
            ctx.violation(R, inst, 'the block kept in `%s` is handed out again without any test of its alignment against `%s`: it was '
                          'allocated for whatever alignment its previous owner asked for' % (where, aname), tu.fn_loc(f),
                          key=key + 'reused-block-alignment-not-checked')
        else:
            ctx.undecided(R, inst, 'a kept block (`%s`) is handed out again after an alignment test against %s; cannot relate it to `%s`'
                          % (where, ', '.join(show_val(t) for t in tests), aname), tu.fn_loc(f))
        return False
    # handed out => removed from the cache
    after = p.mem(cell)
    if after is None or after.as_int() != 0:
        ctx.violation(R, inst, 'the block kept in `%s` is handed out but stays in the cache (`%s` is not cleared): the same block will be '
                      'handed out or released again' % (where, where), tu.fn_loc(f), key=key + 'reused-block-not-removed')
        return False
    # extent: size <= usable size recorded by alignedFree together with the pointer
    fits = False
    why = 'alignedFree does not record a usable size next to the kept pointer'
    for gp in (gpaths or []):
        st = gp.stores()
        if gp.kind != 'return' or cell not in st:
            continue
        pv = st[cell]
        for loc2, v2 in st.items():
            sv = strip_site(v2)
            if loc2 != cell and loc2[0] == 'field' and cell[0] == 'field' and loc2[1] == cell[1] and isinstance(sv, tuple) and sv and \
                    sv[0] == 'call' and bare(sv[1]) in USABLE_SIZE and sv[3] and strip_site(sv[3][0]) == strip_site(pv):
                rel = Rel.make(Poly.atom(loc2), '>=', size)
                if p.state.get(('pc', rel)):
                    fits = True
                else:
                    why = 'the path does not carry `%s <= %s`' % (show_val(size), show_val(Poly.atom(loc2)))
    if not fits:
        ctx.undecided(R, inst, 'a kept block (`%s`) is handed out again (alignment tested against `%s`); its extent is not decided: %s'
                      % (where, aname, why), tu.fn_loc(f))
        return False
    reuse[cell] = p
    ctx.assume('a block-retention slot in malloc.cpp is written only by alignedMalloc/alignedFree and its own destructor')
    return True


def result_bounds(p, ev):
    """bounds of the value returned by the call of event ev on path p"""
    for k in p.state.d:
        if isinstance(k, tuple) and k[0] == 'fact' and isinstance(k[1], tuple) and k[1][0] == 'call' and k[1][1] == ev[1]:
            return p.state.d[k]
    return (-INF, INF)


def call_atom_bounds(p, q):
    """bounds of the (unique) result atom of calls to q on path p; default for pointers if never tested"""
    for k in p.state.d:
        if isinstance(k, tuple) and k[0] == 'fact' and isinstance(k[1], tuple) and k[1][0] == 'call' and k[1][1] == q:
            return p.state.d[k]
    return (0, SIZE_MAX)


# ================================================================================================
#  R-C14-2
# ================================================================================================
def check_allocator(ctx, tu, tag):
    R = 'R-C14-2'
    n = 0
    recs = [r for r in tu.records.values() if r.get('tmpl') == ALLOC and r.get('targs') and len(r['targs']) == 2]
    file = 'rkcommon/containers/aligned_allocator.h'
    for r in recs:
        sz = r['targs'][0].get('size')
        try:
            A = int(r['targs'][1].get('v'))
        except (TypeError, ValueError):
            A = None
        if not sz or A is None:
            ctx.undecided(R, r['type'], 'cannot read sizeof(T) / the alignment argument from the instantiation', file)
            continue
        M = SIZE_MAX // sz
        short = r['type'].replace('rkcommon::containers::', '')
        members = [f for f in tu.functions.values() if f.get('recid') == r['id'] and not f['dep'] and tu.cfg(f) is not None]
        names = {}
        for f in members:
            names.setdefault(f['q'].rsplit('::', 1)[-1], []).append(f)
        for need in ('allocate', 'deallocate', 'max_size'):
            if need not in names:
                ctx.broken('%s: %s::%s has no body in %s' % (R, short, need, tu.unit))
        this = Poly.atom(('this',))
        # ---- max_size
        for f in names.get('max_size', []):
            n += 1
            inst = '%s::max_size [%s]' % (short, tag)
            paths = analyse(ctx, R, inst, tu, f, this)
            if paths is None:
                continue
            vals = {p.ret.as_int() if (p.kind == 'return' and p.ret is not None) else None for p in paths}
            if vals == {M}:
                ctx.ok(R, inst, 'returns %d == SIZE_MAX / %d' % (M, sz), tu.fn_loc(f))
            elif None not in vals:
                ctx.violation(R, inst, 'max_size() returns %s, required: SIZE_MAX / sizeof(T) = %d (sizeof(T) = %d)'
                              % (sorted(vals), M, sz), tu.fn_loc(f), key='%s|%s|aligned_allocator::max_size|value' % (R, file))
            else:
                ctx.undecided(R, inst, 'max_size() is not a compile-time constant (%s)'
                              % ', '.join(sorted({show_val(p.ret) for p in paths})), tu.fn_loc(f))
        # ---- deallocate
        for f in names.get('deallocate', []):
            n += 1
            inst = '%s::deallocate [%s]' % (short, tag)
            paths = analyse(ctx, R, inst, tu, f, this)
            if paths is None:
                continue
            ptr = params(f)[0]
            bad = False
            for p in paths:
                fr = p.calls(lambda q: q == AF)
                other = p.calls(lambda q: bare(q) in FREES)
                if p.kind != 'return':
                    bad = True
                    ctx.undecided(R, inst, 'a path does not return', tu.fn_loc(f))
                elif other:
                    bad = True
                    ctx.violation(R, inst, 'the block (obtained from alignedMalloc) is released with %s, required: alignedFree'
                                  % other[0][1], other[0][4], key='%s|%s|aligned_allocator::deallocate|not-alignedFree' % (R, file))
                elif not fr and p.bounds(ptr.as_atom())[1] == 0:
                    continue        # the pointer is null on this path (guarded by p == nullptr): nothing to release
                elif len(fr) != 1:
                    bad = True
                    plo, phi = p.bounds(ptr.as_atom())
                    report(ctx, p, R, inst, 'alignedFree is called %d times on a path where the pointer %s, required: once'
                           % (len(fr), 'is non-null' if plo >= 1 else 'can be non-null'), tu.fn_loc(f),
                           '%s|%s|aligned_allocator::deallocate|alignedFree-count' % (R, file))
                elif fr[0][3][0] != ptr:
                    bad = True
                    if only_params(fr[0][3][0], params(f)):
                        report(ctx, p, R, inst, 'alignedFree receives `%s` instead of the pointer to release' % show_val(fr[0][3][0]),
                               fr[0][4], '%s|%s|aligned_allocator::deallocate|pointer-not-passed-through' % (R, file))
                    else:
                        ctx.undecided(R, inst, 'alignedFree receives `%s`' % show_val(fr[0][3][0]), fr[0][4])
            if not bad:
                ctx.ok(R, inst, 'alignedFree(p)', tu.fn_loc(f))
        # ---- R-C14-5: construct(p, t) makes a copy of t at p with T's copy constructor (a bitwise copy only for trivially
        #      copyable T): this is what std::vector relocates elements with
        tc = r['targs'][0].get('trivially_copyable')
        for f in names.get('construct', []):
            if len(f['params']) != 2:
                continue
            n += 1
            inst = '%s::construct [%s]' % (short, tag)
            paths = analyse(ctx, 'R-C14-5', inst, tu, f, this)
            if paths is None:
                continue
            P, Tv = params(f)
            bad = False
            how = set()
            for x in tu.walk(tu.body(f)) if tu.body(f) is not None else ():
                if x.get('kind') == 'CallExpr' and tu.sd(x).get('q') == 'std::move' and len(tu.kids(x)) == 2:
                    a0 = tu.strip(tu.kids(x)[1], casts=True)
                    rd = a0.get('referencedDecl', {}) if a0 is not None and a0.get('kind') == 'DeclRefExpr' else {}
                    pty = rd.get('type', {}).get('qualType', '').rstrip()
                    if rd.get('kind') == 'ParmVarDecl' and pty.endswith('&') and not pty.endswith('&&'):
                        bad = True
                        ctx.violation('R-C14-5', inst, 'construct(p, u) applies std::move to its parameter `%s`, which in this instantiation is '
                                      'bound to the caller\'s lvalue (%s): the element is move-constructed from an object the caller still '
                                      'owns (emplace_back(x), insert/assign from non-const iterators leave their sources emptied); a forwarding '
                                      'reference must be passed on with std::forward<U>(u)' % (rd.get('name'), pty), tu.loc(x),
                                      key='R-C14-5|%s|aligned_allocator::construct|lvalue-moved-from' % file)
            for p in paths:
                if p.kind != 'return':
                    continue            # the element's copy constructor may throw
                pn = [e for e in p.events if e[0] == 'placement-new']
                mc = p.calls(lambda q: bare(q) in ('memcpy', 'memmove', '__builtin_memcpy', '__builtin_memmove'))
                if len(pn) == 1 and not mc and len(pn[0][2]) == 1 and deconv(unconv(pn[0][2][0])) == P and \
                        len(pn[0][3]) == 1 and strip_site(pn[0][3][0]) in (Tv.as_atom(), ('addr', Tv.as_atom()[1])):
                    how.add('placement new T(t)')
                    continue
                if len(mc) == 1 and not pn and len(mc[0][3]) == 3 and deconv(unconv(mc[0][3][0])) == P and \
                        strip_site(mc[0][3][1]) in (Tv.as_atom(), ('addr', Tv.as_atom()[1])) and mc[0][3][2].as_int() == sz:
                    if tc:
                        how.add('memcpy of a trivially copyable T')
                        continue
                    bad = True
                    ctx.violation('R-C14-5', inst, 'construct(p, t) copies the %d bytes of t with %s, but %s is not trivially copyable (it has a '
                                  'user-provided copy constructor): elements that std::vector relocates through the allocator are bitwise '
                                  'images, not copies - they do not survive reallocation unchanged' % (sz, bare(mc[0][1]), r['targs'][0].get('t')),
                                  mc[0][4], key='R-C14-5|%s|aligned_allocator::construct|bitwise-copy-of-non-trivially-copyable' % file)
                    continue
                bad = True
                ctx.undecided('R-C14-5', inst, 'construct(p, t) does not copy-construct t at p in a recognised way (placement-new: %d, '
                              'memcpy-like: %d)' % (len(pn), len(mc)), tu.fn_loc(f))
            if not bad and how:
                ctx.ok('R-C14-5', inst, ', '.join(sorted(how)), tu.fn_loc(f))
        # ---- R-C14-6: a member declared noexcept must not let an exception escape (it would be std::terminate instead of the
        #      length_error / bad_alloc the property promises)
        for f in members:
            if 'noexcept' not in (f.get('fty') or ''):
                continue
            n += 1
            mname = f['q'].rsplit('::', 1)[-1]
            inst = '%s::%s noexcept [%s]' % (short, mname, tag)
            paths = analyse(ctx, 'R-C14-6', inst, tu, f, this)
            if paths is None:
                continue
            thr = [p for p in paths if p.kind != 'return' and p.throws()]
            if thr:
                t0 = thr[0].throws()[-1]
                ctx.violation('R-C14-6', inst, '%s is declared noexcept but a path throws %s (at %s): the exception cannot leave the function, '
                              'the process ends in std::terminate() instead of reporting %s to the caller' % (mname, t0[1], t0[2], t0[1]),
                              tu.fn_loc(f), key='R-C14-6|%s|aligned_allocator::%s|noexcept-function-throws' % (file, mname))
            else:
                ctx.ok('R-C14-6', inst, 'no path throws', tu.fn_loc(f), nontrivial=False)
        # ---- allocate (plain and hinted)
        for f in names.get('allocate', []):
            n += 1
            hinted = len(f['params']) == 2
            inst = '%s::allocate%s [%s]' % (short, '(n, hint)' if hinted else '(n)', tag)
            key = '%s|%s|aligned_allocator::allocate|' % (R, file)
            paths = analyse(ctx, R, inst, tu, f, this)
            if paths is None:
                continue
            check_allocate_paths(ctx, R, inst, key, tu, f, paths, sz, A, M)
    return n


def size_covers(sa, N, sz, lo, hi, p):
    """Is the requested byte count `sa` at least n*sizeof(T) for every n in [lo, hi] (the range of n on path p)?
    -> (True, description) | (False, (key-suffix, reason)) | (None, why-unrecognised).
    Accepted forms: n*sizeof(T) itself; n*sizeof(T) plus a non-negative padding that is a polynomial in n; rounding up to a
    multiple of a power of two a with a full-width mask, (n*sizeof(T) + a-1) & ~(a-1).  Wrapping of the sub-expressions is a
    separate obligation (wrap events).  Rejected: anything whose value is provably smaller than n*sizeof(T) for some n of the
    range - in particular an AND with a constant whose high bits are clear (the result is bounded by the constant while
    n*sizeof(T) is not)."""
    want = N * sz
    Na = N.as_atom()
    if sa == want:
        return True, want.show()
    bnd = lambda a: (lo, hi) if a == Na else p.bounds(a)
    a = sa.as_atom() if isinstance(sa, Poly) else None
    if isinstance(a, tuple) and a and a[0] == 'and' and len(a) == 3:
        ops = [a[1], a[2]]
        consts = [x for x in ops if isinstance(x, Poly) and x.as_int() is not None]
        others = [x for x in ops if not (isinstance(x, Poly) and x.as_int() is not None)]
        if len(consts) != 1 or len(others) != 1 or not isinstance(others[0], Poly):
            return None, 'bit-and of two non-constant values'
        mask, P = consts[0].as_int(), others[0]
        low = SIZE_MAX + 1 - mask              # a full-width alignment mask is 2^64 - a with a a power of two
        if 0 < low <= 2 ** 63 and (low & (low - 1)) == 0:
            if not all(x == Na for x in P.atoms(deep=False)):
                return None, 'the masked value is not a polynomial in n'
            d = P - want
            dlo, dhi = d.range(bnd)
            if dlo >= low - 1:
                return True, '%s rounded up to a multiple of %d' % (want.show(), low)
            if dhi < low - 1:
                return False, ('size-rounded-down', 'masking with ~%d rounds `%s` *down*, below n * sizeof(T) (only adding at least %d '
                               'first rounds up)' % (low - 1, P.show(), low - 1))
            return None, 'padding before the mask is not uniform'
        # a mask with clear high bits: the result never exceeds the mask, n*sizeof(T) does
        wlo, whi = want.range(bnd)
        if whi > mask:
            first = mask // sz + 1
            return False, ('size-truncated-by-mask', 'the bit mask %#x has its high bits clear (a %d-bit mask widened to size_t), so the '
                           'result is at most %d while n * sizeof(T) reaches %d: for n in %s the block is too small'
                           % (mask, mask.bit_length(), mask, int(whi), rng(max(lo, first), hi)))
        return None, 'bit-and with the constant %#x' % mask
    if isinstance(sa, Poly) and all(x == Na for x in sa.atoms(deep=False)):
        dlo, dhi = (sa - want).range(bnd)
        if dlo >= 0:
            return True, sa.show()
        return False, ('wrong-size', 'for some n in %s it is smaller by up to %d bytes' % (rng(lo, hi), int(-dlo)))
    return None, 'unrecognised size expression'


def check_construct_patterns(ctx, tu, tag):
    """R-C14-5 (template level): every construct member of aligned_allocator - also a variadic construct(U*, Args&&...) that is
    only instantiated by the containers - creates the element with direct-initialisation `new (p) U(args...)`.  With
    list-initialisation `U{args...}` a type that has an initializer_list constructor gets its copy/move arguments wrapped in
    a one-element list (std::vector<X>{v} is a vector holding v), so relocated elements are not copies."""
    R = 'R-C14-5'
    n = 0
    file = 'rkcommon/containers/aligned_allocator.h'
    seen = set()
    for f in tu.functions.values():
        if f.get('rec') != ALLOC or f['q'].rsplit('::', 1)[-1] != 'construct' or tu.body(f) is None:
            continue
        pat = tu.functions.get(f.get('pat')) if f.get('pat') else f
        sig = (pat or f)['fty'] if f['dep'] or pat else f['fty']
        for x in tu.walk(tu.body(f)):
            if x.get('kind') != 'CXXNewExpr' or (tu.loc(x), sig) in seen:
                continue
            seen.add((tu.loc(x), sig))
            n += 1
            inst = 'aligned_allocator::construct %s at %s [%s]' % (f['fty'], tu.loc(x), tag)
            style = x.get('initStyle')
            if style == 'list':
                ctx.violation(R, inst, 'the element is created with list-initialisation `new (p) U{...}`: for an element type with an '
                              'initializer_list constructor the copy/move made when the container relocates or inserts is a one-element list '
                              'holding the source instead of a copy of it; required: direct-initialisation `new (p) U(...)`', tu.loc(x),
                              key='%s|%s|aligned_allocator::construct|list-initialisation' % (R, file))
            elif style in ('call', None, 'c') or style == 'parens':
                ctx.ok(R, inst, 'direct-initialisation', tu.loc(x), nontrivial=False)
            else:
                ctx.undecided(R, inst, 'unrecognised initialisation style `%s` of the placement-new' % style, tu.loc(x))
    return n


def check_allocate_paths(ctx, R, inst, key, tu, f, paths, sz, A, M):
    N = params(f)[0]
    Na = N.as_atom()
    want_size = N * sz
    bad = False
    summary = []
    # a branch whose condition is computed from an already wrapped function of n decides nothing about n
    wrapped_conds = {}
    for p in paths:
        for e in p.events:
            if e[0] == 'wrap-in-condition' and p.bounds(Na)[1] > M:
                wrapped_conds.setdefault((e[2], e[1]), e)
    for (loc, text), e in sorted(wrapped_conds.items()):
        bad = True
        ctx.violation(R, inst, 'the test `%s` is made on `%s`, which is computed in size_t and has already wrapped around for n > max_size() = '
                      '%d (sizeof(T) = %d): an element count above max_size() can pass the overflow test, and alignedMalloc is then asked '
                      'for the small wrapped byte count and reports success' % (e[3], text, M, sz), loc,
                      key=key + 'overflow-check-on-wrapped-product')
    hint = params(f)[1] if len(f['params']) == 2 else None
    for p in paths:
        rc = p.calls(lambda q: bare(q) in REALLOCS)
        if rc:
            bad = True
            e = rc[0]
            a0 = deconv(unconv(e[3][0])) if e[3] else None
            if hint is not None and a0 == hint:
                report(ctx, p, R, inst, 'allocate(n, hint) hands the hinted block itself to %s: the hint only names a neighbourhood, the block '
                       'behind it is still owned by somebody else - after the call it has been resized, moved or freed under its owner and '
                       'two owners release the same storage; required: a fresh block from alignedMalloc' % bare(e[1]), e[4],
                       key + 'hint-block-reallocated')
            else:
                ctx.undecided(R, inst, '%s is called on `%s`' % (bare(e[1]), show_val(e[3][0]) if e[3] else ''), e[4])
            continue
        if wrapped_conds and any(e[0] == 'wrap-in-condition' for e in p.events):
            continue            # nothing was learnt about n on these paths; the defect is reported above
        lo, hi = p.bounds(Na)
        lo, hi = max(lo, 0), min(hi, SIZE_MAX)
        allocs = p.calls(lambda q: q == AM)
        wraps = [e for e in p.events if e[0] == 'wrap']
        if p.kind != 'return':
            th = p.throws()
            if not th:
                bad = True
                ctx.undecided(R, inst, 'a path for n in %s ends in a noreturn call' % rng(lo, hi), tu.fn_loc(f))
                continue
            ty = th[-1][1]
            if ty == 'std::length_error':
                if lo <= M and lo * sz + A > SIZE_MAX:
                    # rejected although n <= max_size(), but byte count + alignment slack is not representable in size_t:
                    # no aligned allocator could serve it, only the exception type differs from bad_alloc
                    summary.append('n in %s: length_error (byte count + %d does not fit size_t)' % (rng(lo, hi), A))
                elif lo <= M:
                    bad = True
                    report(ctx, p, R, inst, 'std::length_error is thrown for n in %s although max_size() = %d: a request that fits is '
                           'rejected' % (rng(lo, min(hi, M)), M), th[-1][2], key + 'length_error-for-fitting-request')
                elif allocs:
                    bad = True
                    report(ctx, p, R, inst, 'alignedMalloc is called before the overflow check throws', allocs[0][4],
                           key + 'allocation-before-overflow-check')
                else:
                    summary.append('n in %s: length_error' % rng(lo, hi))
            elif ty == 'std::bad_alloc':
                rlo, rhi = call_atom_bounds(p, AM)
                if hi > M:
                    bad = True
                    report(ctx, p, R, inst, 'for n in %s (> max_size() = %d) the allocator throws std::bad_alloc, required: '
                           'std::length_error' % (rng(max(lo, M + 1), hi), M), th[-1][2], key + 'wrong-exception-for-overflow')
                elif not allocs or rhi != 0:
                    bad = True
                    report(ctx, p, R, inst, 'std::bad_alloc is thrown for n in %s on a path where the allocation %s'
                           % (rng(lo, hi), 'was not attempted' if not allocs else 'may have succeeded (the block leaks)'),
                           th[-1][2], key + 'bad_alloc-without-null-result')
                else:
                    summary.append('n in %s, null result: bad_alloc' % rng(lo, hi))
            else:
                bad = True
                if lo > M:
                    report(ctx, p, R, inst, 'for n in %s (> max_size()) the allocator throws %s, required: std::length_error'
                           % (rng(lo, hi), ty), th[-1][2], key + 'wrong-exception-for-overflow')
                else:
                    ctx.undecided(R, inst, 'throws %s for n in %s' % (ty, rng(lo, hi)), th[-1][2])
            continue
        # ---- returning paths
        if hi > M:
            bad = True
            what = 'the size product `%s` wraps around' % wraps[0][1] if wraps else 'no std::length_error is thrown'
            report(ctx, p, R, inst, 'for n in %s (> max_size() = SIZE_MAX/%d = %d) %s%s' % (
                rng(max(lo, M + 1), hi), sz, M, what,
                ' and alignedMalloc is asked for a block that is too small' if allocs else ''),
                (allocs[0][4] if allocs else tu.fn_loc(f)), key + 'overflow-not-rejected')
            continue
        if not allocs:
            if hi == 0 and p.ret is not None and p.ret.as_int() == 0:
                summary.append('n == 0: nullptr')
                continue
            bad = True
            report(ctx, p, R, inst, 'for n in %s the function returns %s without allocating' % (rng(lo, hi), show_val(p.ret)),
                   tu.fn_loc(f), key + 'no-allocation')
            continue
        if len(allocs) > 1:
            bad = True
            ctx.undecided(R, inst, 'alignedMalloc is called more than once on a path', allocs[1][4])
            continue
        e = allocs[0]
        sa, aa = e[3][0], e[3][1] if len(e[3]) > 1 else None
        verdict, why = size_covers(sa, N, sz, lo, hi, p)
        if verdict is False:
            bad = True
            report(ctx, p, R, inst, 'alignedMalloc is asked for `%s` bytes, required: at least n * sizeof(T) = %s; %s'
                   % (show_val(sa), want_size.show(), why[1]), e[4], key + why[0])
        if wraps:
            bad = True
            report(ctx, p, R, inst, 'for n in %s the unsigned expression `%s` can wrap' % (rng(lo, hi), wraps[0][1]), wraps[0][2],
                   key + 'size-product-can-wrap')
        if verdict is False:
            continue
        if verdict is None:
            bad = True
            ctx.undecided(R, inst, 'alignedMalloc is asked for `%s` bytes; cannot relate it to n * sizeof(T) (%s)' % (show_val(sa), why), e[4])
            continue
        if wraps:
            continue
        size_note = why
        if aa is not None and aa.as_int() is None and aa.range(p.bounds)[1] < A:
            bad = True
            report(ctx, p, R, inst, 'for n in %s alignedMalloc is asked for the alignment `%s`, which is at most %d on this path, required: the '
                   'template argument %d - small blocks are not %d-byte aligned (an AlignedVector\'s data() loses its alignment while it is '
                   'small and regains it when it grows)' % (rng(lo, hi), 'reduced by the loop in front of the call' if
                   isinstance(aa.as_atom(), tuple) and aa.as_atom()[0] == 'widen' else show_val(aa), int(aa.range(p.bounds)[1]), A, A), e[4],
                   key + 'alignment-argument-smaller-than-template-argument')
            continue
        ac = aa.as_int() if aa is not None else None
        if ac is not None and ac != A and ac > A and (ac & (ac - 1)) == 0 and (A & (A - 1)) == 0:
            ac = A          # a larger power of two (e.g. alignof of an over-aligned T): a multiple of A, the block is A-aligned as well
            aa = Poly.const(A)
        elif ac is not None and ac > A and (ac & (ac - 1)) != 0:
            bad = True
            report(ctx, p, R, inst, 'alignedMalloc is asked for the alignment %d, which is not a power of two (sizeof(T) = %d taken for an '
                   'alignment?): the back ends require a power of two - the request is refused or the block is not %d-byte aligned; '
                   'required: the template argument %d (or a larger power of two)' % (ac, sz, A, A), e[4],
                   key + 'alignment-argument-not-power-of-two')
            continue
        if aa is None or aa.as_int() != A:
            bad = True
            if aa is not None and aa.as_int() is not None:
                report(ctx, p, R, inst, 'alignedMalloc is asked for alignment %s, required: the template argument %d'
                       % (show_val(aa), A), e[4], key + 'alignment-argument-not-forwarded')
            else:
                ctx.undecided(R, inst, 'alignment argument `%s` is not the template argument %d' % (show_val(aa), A), e[4])
            continue
        rlo, rhi = call_atom_bounds(p, AM)
        ret = strip_site(p.ret) if p.ret is not None else None
        if rlo <= 0:
            bad = True
            report(ctx, p, R, inst, 'for n in %s a null result of alignedMalloc is returned to the caller, required: std::bad_alloc'
                   % rng(lo, hi), tu.fn_loc(f), key + 'null-result-not-bad_alloc')
            continue
        if not (isinstance(ret, tuple) and ret[0] == 'call' and ret[1] == AM):
            bad = True
            if p.ret is not None and (p.ret.is_const() or only_params(p.ret, params(f))):
                report(ctx, p, R, inst, 'the function returns %s instead of the allocated block' % show_val(p.ret), tu.fn_loc(f),
                       key + 'result-not-returned')
            else:
                ctx.undecided(R, inst, 'the function returns %s' % show_val(p.ret), tu.fn_loc(f))
            continue
        summary.append('n in %s: alignedMalloc(%s, %d)' % (rng(lo, hi), size_note, A))
    if not bad:
        ctx.ok(R, inst, '; '.join(sorted(set(summary))), tu.fn_loc(f))


# ================================================================================================
#  R-C14-3
# ================================================================================================
def check_typed_malloc(ctx, tu, tag):
    R = 'R-C14-3'
    n = 0
    file = 'rkcommon/memory/malloc.h'
    for f in tu.fns(q=AM, dep=False):
        if not f.get('targs') or tu.cfg(f) is None or len(f['params']) != 2:
            continue
        szs = set()
        for x in tu.walk(tu.body(f)):
            if x.get('kind') == 'UnaryExprOrTypeTraitExpr' and x.get('name', 'sizeof') == 'sizeof':
                cv = tu.sd(x).get('cv')
                if cv is not None:
                    szs.add(int(cv))
        inst = 'alignedMalloc<%s> [%s]' % (f['targs'][0], tag)
        n += 1
        if len(szs) != 1:
            ctx.undecided(R, inst, 'cannot find the element size used by the typed overload (sizeof values: %s)' % sorted(szs),
                          tu.fn_loc(f))
            continue
        sz = szs.pop()
        M = SIZE_MAX // sz
        paths = analyse(ctx, R, inst, tu, f)
        if paths is None:
            continue
        count, align = params(f)
        key = '%s|%s|alignedMalloc<T>|' % (R, file)
        bad = False
        summary = []
        for p in paths:
            lo, hi = p.bounds(count.as_atom())
            lo, hi = max(lo, 0), min(hi, SIZE_MAX)
            allocs = p.calls(lambda q: q == AM)
            wraps = [e for e in p.events if e[0] == 'wrap']
            if p.kind != 'return':
                summary.append('n in %s: %s' % (rng(lo, hi), ', '.join('throws ' + t[1] for t in p.throws()) or 'noreturn'))
                if allocs and wraps:
                    bad = True
                continue
            if not allocs:
                if p.ret is not None and p.ret.as_int() == 0:
                    summary.append('n in %s: nullptr' % rng(lo, hi))
                    continue
                bad = True
                ctx.undecided(R, inst, 'returns %s without allocating' % show_val(p.ret), tu.fn_loc(f))
                continue
            e = allocs[0]
            sa, aa = e[3][0], e[3][1] if len(e[3]) > 1 else None
            if wraps:
                bad = True
                report(ctx, p, R, inst, 'for element counts in %s the byte count `%s` exceeds SIZE_MAX and wraps (sizeof(T) = %d): '
                       'alignedMalloc is asked for a smaller block than the caller will use and reports success'
                       % (rng(max(lo, M + 1), hi), show_val(sa), sz), e[4], key + 'size-product-can-wrap')
                continue
            if sa != count * sz or aa != align:
                bad = True
                if only_params(sa, [count, align]) and aa is not None and only_params(aa, [count, align]):
                    report(ctx, p, R, inst, 'alignedMalloc receives (%s, %s), required: (n * sizeof(T), align)' % (show_val(sa), show_val(aa)),
                           e[4], key + 'arguments-not-passed-through')
                else:
                    ctx.undecided(R, inst, 'alignedMalloc receives (%s, %s)' % (show_val(sa), show_val(aa)), e[4])
                continue
            ret = strip_site(p.ret) if p.ret is not None else None
            if not (isinstance(ret, tuple) and ret[0] == 'call' and ret[1] == AM):
                bad = True
                ctx.undecided(R, inst, 'returns %s, not the allocated block' % show_val(p.ret), tu.fn_loc(f))
                continue
            summary.append('n in %s: alignedMalloc(%s, align)' % (rng(lo, hi), (count * sz).show()))
        if not bad:
            ctx.ok(R, inst, '; '.join(sorted(set(summary))), tu.fn_loc(f))
    return n


# ================================================================================================
#  R-C14-4
# ================================================================================================
def unconv(v):
    """strip integral conversions around a value"""
    while isinstance(v, Poly):
        a = v.as_atom()
        if isinstance(a, tuple) and a and a[0] == 'conv':
            v = a[2]
        else:
            break
    return v


def check_is_aligned(ctx, tu, tag):
    R = 'R-C14-4'
    fs = [f for f in tu.fns(q='rkcommon::memory::isAligned', dep=False) if tu.cfg(f) is not None]
    if len(fs) != 1 or len(fs[0]['params']) != 2:
        ctx.broken('%s: anchor rkcommon::memory::isAligned(void*, int) not found' % R)
        return 0
    f = fs[0]
    inst = 'isAligned [%s]' % tag
    key = '%s|%s|isAligned|' % (R, tu.fn_file(f))
    paths = analyse(ctx, R, inst, tu, f)
    if paths is None:
        return 1
    ptr, al = [x.as_atom() for x in params(f)]
    for p in paths:
        if p.kind != 'return' or p.ret is None:
            ctx.undecided(R, inst, 'a path does not return a value', tu.fn_loc(f))
            return 1
    if len(paths) != 1:
        ctx.undecided(R, inst, 'isAligned has %d paths; expected a single expression' % len(paths), tu.fn_loc(f))
        return 1
    a = paths[0].ret.as_atom()
    if not (isinstance(a, tuple) and a[0] == 'bool' and a[1][0] == 'rel'):
        ctx.undecided(R, inst, 'returned value %s is not a single comparison' % show_val(paths[0].ret), tu.fn_loc(f))
        return 1
    rel = a[1][1]
    pa = rel.p.as_atom()
    c = rel.p.const_term()
    core = None
    for x in rel.p.atoms(deep=False):
        core = x if core is None else False
    ok_operands = False
    form = None
    if isinstance(core, tuple) and core and core[0] == 'mod' and len(core) == 3:
        ok_operands = strip_site(core[1]) == ptr and strip_site(core[2]) == al
        form = 'p % a'
    elif isinstance(core, tuple) and core and core[0] == 'and' and len(core) == 3:
        ops = [unconv(core[1]), unconv(core[2])]
        for x, y in (ops, ops[::-1]):
            if strip_site(x) == ptr and isinstance(y, Poly) and y.atoms(deep=False):
                a0 = y.atoms(deep=False)[0]
                lin = y.linear_in(a0)
                if lin and lin[0] == 1 and lin[1].as_int() == -1 and strip_site(a0) == al:
                    ok_operands = True
        form = 'p & (a - 1)'
    if core is None or core is False or form is None:
        ctx.undecided(R, inst, 'returned comparison `%s` is not of the form p %% a == 0' % rel.show(), tu.fn_loc(f))
        return 1
    if not ok_operands:
        ctx.violation(R, inst, 'the alignment test `%s` does not relate the pointer to the alignment argument (required: p %% a == 0)'
                      % rel.show(), tu.fn_loc(f), key=key + 'operands')
    elif rel.op == '==' and pa is not None and c == 0:
        ctx.ok(R, inst, '%s == 0' % form, tu.fn_loc(f))
    else:
        ctx.violation(R, inst, 'isAligned returns `%s`, required: %s == 0' % (rel.show(), form), tu.fn_loc(f), key=key + 'relation')
    return 1


# ================================================================================================
#  W-C14
# ================================================================================================
def check_witness(ctx, compiler, std, tag):
    W = 'W-C14'
    rc, err = ctx.front.compile_check(WITNESS, 'TBB', std=std, compiler=compiler)
    inst = 'witness/c14_types.cpp [%s]' % tag
    if rc == 0:
        ctx.ok(W, inst, 'all static_asserts hold: AlignedVector<T> == std::vector<T, aligned_allocator<T,64>>, rebind_alloc<T> keeps 64, '
               'pointer is T*', 'verif:' + WITNESS)
        return 1
    failed = sorted(set(re.findall(r'static[_ ]assert(?:ion)? failed.*?"(W\d)[^"]*"', err)) |
                    set(re.findall(r'static assertion failed: (W\d)', err)))
    other = [l for l in err.splitlines() if re.search(r':\s*(fatal )?error:', l) and 'static' not in l]
    if failed and not other:
        texts = {m[0]: m[1] for m in re.findall(r'"(W\d) ([^"]*)"', open(ctx.front.unit_path(WITNESS)).read())}
        for w in failed:
            ctx.violation(W, inst, 'static_assert %s fails: %s' % (w, texts.get(w, '')), 'verif:' + WITNESS,
                          key='%s|rkcommon/containers/AlignedVector.h|AlignedVector|%s' % (W, w))
    else:
        ctx.broken('%s: witness does not compile for another reason than a failed static_assert:\n%s' % (W, err[-1500:]))
    return 1


# ================================================================================================
#  R-C14-8  lock discipline of bookkeeping records in malloc.cpp
# ================================================================================================
LOCKS = ('std::lock_guard<', 'std::unique_lock<', 'std::scoped_lock<')
MUTEXES = ('std::mutex', 'std::recursive_mutex', 'std::timed_mutex', 'std::shared_mutex', 'std::shared_timed_mutex')


def lock_discipline(tu, file_filter):
    """For every record defined in a file accepted by file_filter that has a mutex member: each non-const, non-atomic data member
    that some member function accesses while holding a lock on that mutex (a lock_guard / unique_lock / scoped_lock variable
    constructed from it, alive until its scope ends) must be accessed under the lock in every member function other than
    constructors and the destructor.  -> list of (record, field, locked sites, unlocked sites [(function, loc)])"""
    out = []
    for r in tu.records.values():
        if r.get('lambda'):
            continue
        flds = r.get('fields', [])
        mfields = [f['name'] for f in flds if (f.get('ct') or '').replace('const ', '') in MUTEXES]
        if not mfields:
            continue
        members = [f for f in tu.functions.values() if f.get('recid') == r['id'] and not f['dep'] and tu.cfg(f) is not None]
        if not members or not file_filter(tu.fn_file(members[0])):
            continue
        data = {f['name'] for f in flds if f['name'] not in mfields and not (f.get('type') or '').startswith('const ')
                and not (f.get('ct') or '').startswith('std::atomic')}
        acc = {}
        for f in members:
            if f.get('ctor') or f.get('dtor'):
                continue
            g = tu.cfg(f)

            def transfer(blk, i, e, st, f=f):
                if e[0] == 'AD':
                    return [st - {e[1]}] if e[1] in st else [st]
                if e[0] != 'S':
                    return [st]
                n = tu.node(e[1])
                if n is None:
                    return [st]
                k = n.get('kind')
                if k == 'DeclStmt':
                    for v in tu.kids(n):
                        ty = (v.get('type', {}).get('desugaredQualType') or v.get('type', {}).get('qualType') or '')
                        if v.get('kind') == 'VarDecl' and ty.replace('const ', '').startswith(LOCKS) and \
                                any(x.get('kind') == 'MemberExpr' and x.get('name') in mfields for x in tu.walk(v)):
                            st = st | {v['id']}
                    return [st]
                if k == 'MemberExpr' and n.get('name') in data and tu.member_of_this(n) == n.get('name'):
                    acc.setdefault(n['name'], {True: [], False: []})[bool(st)].append((f['q'], tu.loc(n)))
                return [st]
            g.explore([frozenset()], transfer)
        for name, sites in sorted(acc.items()):
            out.append((r, name, sites[True], sites[False]))
    return out


def check_lock_discipline(ctx, tu, tag):
    R8 = 'R-C14-8'
    n = 0
    for r, name, locked, unlocked in lock_discipline(tu, lambda fn: fn.endswith('rkcommon/memory/malloc.cpp')):
        if not locked:
            continue
        n += 1
        inst = '%s::%s [%s]' % (r['q'].split('::')[-1], name, tag)
        if unlocked:
            fn, loc = unlocked[0]
            ctx.violation(R8, inst, '`%s` is modified under the lock of the record\'s mutex (%s) but read/written without it in %s (%s): '
                          'alignedMalloc/alignedFree are called from several threads at once, so the unlocked access races with an insertion '
                          'or erase that rehashes the container - the bookkeeping itself corrupts memory'
                          % (name, locked[0][1], fn.split('::')[-1], loc), loc,
                          key='%s|rkcommon/memory/malloc.cpp|%s|%s:access-outside-lock' % (R8, r['q'].split('::')[-1], name))
        else:
            ctx.ok(R8, inst, 'every access in member functions holds the lock (%d sites)' % len(locked), locked[0][1])
    return n


def check_lock_witness(ctx):
    """the rule has no instance in malloc.cpp today: make sure on every run that it still recognises the planted examples"""
    R8 = 'R-C14-8'
    tu = ctx.front.parse('witness/c14_locktable.cpp', 'TBB')
    res = {(r['q'].split('::')[-1], name): (bool(locked), bool(unlocked))
           for r, name, locked, unlocked in lock_discipline(tu, lambda fn: fn.endswith('c14_locktable.cpp'))}
    if res.get(('Good', 'blocks')) == (True, False) and res.get(('Bad', 'blocks')) == (True, True):
        ctx.ok(R8, 'witness/c14_locktable.cpp', 'guarded member recognised (Good), access outside the lock recognised (Bad)',
               'verif:witness/c14_locktable.cpp', nontrivial=False)
    else:
        ctx.broken('%s: the planted examples in witness/c14_locktable.cpp are not recognised any more: %s' % (R8, res))


# ================================================================================================
def run(ctx):
    ctx.describe('R-C14-1', 'alignedMalloc/alignedFree: matching aligned allocate/release primitives per configuration, (size, align) '
                            'and ptr passed through unchanged in the right positions')
    ctx.describe('R-C14-2', 'aligned_allocator<T,A>: length_error exactly for n > SIZE_MAX/sizeof(T) and before allocating; size '
                            'n*sizeof(T) cannot wrap; alignment A forwarded; null -> bad_alloc; max_size; deallocate -> alignedFree')
    ctx.describe('R-C14-3', 'typed alignedMalloc<T>(count, align): count*sizeof(T) cannot wrap where the block is requested')
    ctx.describe('R-C14-4', 'isAligned(p, a) is p % a == 0')
    ctx.describe('R-C14-5', 'aligned_allocator::construct(p, t) copy-constructs t at p (bitwise copy only for trivially copyable T)')
    ctx.describe('R-C14-6', 'no aligned_allocator member that is declared noexcept can throw')
    ctx.describe('R-C14-7', 'alignedMalloc writes only inside the size bytes of the block it obtained')
    ctx.describe('R-C14-8', 'bookkeeping records in malloc.cpp: a member that is accessed under the record\'s mutex somewhere is accessed under '
                            'it everywhere (alignedMalloc/alignedFree run concurrently)')
    ctx.describe('R-C14-9', 'alignedMalloc and alignedFree are compiled on the same side of the library/includer boundary, or select '
                            'matching families for every (library configuration, includer configuration) pair')
    ctx.describe('W-C14', 'AlignedVector<T> allocates through aligned_allocator<T,64> (static_assert witnesses)')
    ctx.assume('scalable_aligned_malloc, _mm_malloc, posix_memalign honour their alignment and size arguments; std::vector uses '
               'its allocator as the standard prescribes')
    ctx.assume('shipped configuration: NDEBUG (the power-of-two assert in alignedMalloc is not a guard); LP64 (size_t is 64 bit)')
    ND = ('-DNDEBUG',)
    APPLE = ('-DNDEBUG', '-D__APPLE__', '-D__aarch64__')
    mal = [('TBB', 'TBB', ND, 'tbb'), ('OMP', 'OMP', ND, 'non-tbb'), ('INTERNAL', 'INTERNAL', ND, 'non-tbb'), ('DEBUG', 'DEBUG', ND, 'non-tbb'),
           ('DEBUG', 'DEBUG arm64-macOS', APPLE, 'arm64-macos')]
    drv = [('TBB', 'c++11', 'TBB')]
    if ctx.tier == 'thorough':
        mal += [('TBB', 'TBB asserts-on', (), 'tbb'), ('DEBUG', 'DEBUG asserts-on', (), 'non-tbb'),
                ('TBB', 'TBB arm64-macOS', APPLE, 'tbb')]
        drv += [('DEBUG', 'c++11', 'DEBUG'), ('TBB', 'gnu++17', 'TBB gnu++17')]
    jobs = [dict(unit=MALLOC, config=c, extra=ex) for c, _, ex, _ in mal]
    jobs += [dict(unit=DRIVER, config=c, std=std, extra=ND) for c, std, _ in drv]
    tus = ctx.front.parse_many(jobs)
    ctx.note('the _WIN32 branch of malloc.cpp (_aligned_malloc/_aligned_free) cannot be parsed with the Linux headers and is not analysed')
    n1 = n2 = n3 = n4 = 0
    del _SIDES[:]
    for (c, tag, ex, keytag), tu in zip(mal, tus):
        n1 += check_malloc_cpp(ctx, tu, tag, keytag)
        check_lock_discipline(ctx, tu, tag)
    check_lock_witness(ctx)
    n9 = check_compilation_sides(ctx)
    for (c, std, tag), tu in zip(drv, tus[len(mal):]):
        _LIB[id(tu)] = next((t for (c2, _t, ex, _k), t in zip(mal, tus) if c2 == c and ex == ND), None)
        n2 += check_allocator(ctx, tu, tag)
        check_construct_patterns(ctx, tu, tag)
        n3 += check_typed_malloc(ctx, tu, tag)
        n4 += check_is_aligned(ctx, tu, tag)
    nw = check_witness(ctx, 'clang++', 'c++11', 'clang++ c++11')
    if ctx.tier == 'thorough':
        nw += check_witness(ctx, 'g++', 'c++11', 'g++ c++11')
        nw += check_witness(ctx, 'clang++', 'gnu++17', 'clang++ gnu++17')
    ctx.floor('R-C14-1', n1, 2 * len(mal), 'alignedMalloc + alignedFree per allocator configuration')
    ctx.floor('R-C14-9', n9, len(mal), 'one placement obligation per allocator configuration (both sides of R-C14-1 decided)')
    ctx.floor('R-C14-2', n2, 24 * len(drv), '10 instantiations x (allocate, deallocate, max_size) + 2 hinted overloads per driver parse')
    n5 = sum(1 for o in ctx.obl if o['rule'] == 'R-C14-5')
    ctx.floor('R-C14-5', n5, 8 * len(drv), 'construct() of the 10 instantiations per driver parse')
    ctx.floor('R-C14-3', n3, 4 * len(drv), '6 typed instantiations per driver parse')
    ctx.floor('R-C14-4', n4, len(drv), 'isAligned')
    ctx.floor('W-C14', nw, 1, 'witness unit')
    from rkstatic import selftest
    selftest.run(ctx)
