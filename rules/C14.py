"""C14 - aligned allocation returns aligned, usable, correctly released memory.

Decided statically:
  R-C14-1  per allocator configuration of rkcommon/memory/malloc.cpp (TBB scalable allocator; _mm_malloc for the other
           three backends; posix_memalign on arm64 macOS) alignedMalloc hands (size, align) unchanged and in the right
           positions to an *aligned* allocation primitive and returns its result (or null), alignedFree hands ptr
           unchanged to the release primitive of the *same family*.
  R-C14-2  aligned_allocator<T,A>::allocate(n), every instantiation of drivers/c14_alloc.cpp, by value-flow with
           path splitting on n: requests n > SIZE_MAX/sizeof(T) end in std::length_error before any allocation;
           requests that fit never do; the size handed on is n*sizeof(T) (cannot wrap on any path that reaches the
           call); the alignment handed on is the template argument A; a null result ends in std::bad_alloc; otherwise
           the result is returned; max_size() == SIZE_MAX/sizeof(T); deallocate(p, .) -> alignedFree(p).
  R-C14-3  the typed overload memory::alignedMalloc<T>(count, align): the product count*sizeof(T) cannot wrap on a
           path that reaches the allocation, and (size, align) are passed on unchanged.
  R-C14-4  isAligned(p, a) is  p % a == 0  (or the equivalent mask test).
  W-C14    static_assert witnesses: AlignedVector<T> is std::vector<T, aligned_allocator<T,64>>, the allocator that
           std::vector really allocates through (allocator_traits::rebind_alloc<T>) is aligned_allocator<T,64>, its
           pointer type is T*.

Not decided: what the back-end allocators return (alignment and extent of the block, heap integrity) and how
std::vector uses the allocator (element survival across reallocation).
"""
import re

from rkstatic.x_expr import INF, Poly
from rkstatic.x_valueflow import Flow, is_assert_path, show_val, strip_site

LEVEL = 'other'
EXPLANATION = (
    "For each allocator configuration of malloc.cpp (TBB scalable allocator, _mm_malloc, posix_memalign) a value-flow "
    "analysis decides that alignedMalloc/alignedFree pass (size, align) / ptr unchanged to a matching aligned "
    "allocate/release pair.  For nine instantiations of aligned_allocator<T,A> an inlining value-flow analysis with exact "
    "path splitting on the request size n decides that allocate throws std::length_error exactly for n > "
    "SIZE_MAX/sizeof(T) and before allocating, that the size product n*sizeof(T) cannot wrap where it is computed, that "
    "the template alignment A is what reaches alignedMalloc, that a null result becomes std::bad_alloc, that "
    "max_size() is SIZE_MAX/sizeof(T) and that deallocate releases through alignedFree; any guard with the same "
    "meaning is accepted because conditions are evaluated over integer intervals, not matched.  static_assert witnesses "
    "decide that AlignedVector<T> allocates through aligned_allocator<T,64>.  Not decided: the behaviour of the "
    "back-end allocators (alignment, extent, heap integrity) and of std::vector (element survival).")

MALLOC = 'rkcommon/memory/malloc.cpp'
DRIVER = 'drivers/c14_alloc.cpp'
WITNESS = 'witness/c14_types.cpp'
AM = 'rkcommon::memory::alignedMalloc'
AF = 'rkcommon::memory::alignedFree'
ALLOC = 'rkcommon::containers::aligned_allocator'
SIZE_MAX = 2 ** 64 - 1

# aligned allocation primitives: argument positions and the release function of the family
FAMILIES = {
    'scalable_aligned_malloc': dict(size=0, align=1, free='scalable_aligned_free'),
    '_mm_malloc': dict(size=0, align=1, free='_mm_free'),
    '_aligned_malloc': dict(size=0, align=1, free='_aligned_free'),
    'posix_memalign': dict(out=0, align=1, size=2, free='free'),
    'aligned_alloc': dict(align=0, size=1, free='free'),
    'memalign': dict(align=0, size=1, free='free'),
}
UNALIGNED = ('malloc', 'calloc', 'realloc', 'scalable_malloc', 'scalable_calloc', 'scalable_realloc')
FREES = {f['free'] for f in FAMILIES.values()} | {'scalable_free', 'operator delete', 'operator delete[]'}


def bare(q):
    return q[5:] if q.startswith('std::') else q


def rng(lo, hi):
    f = lambda x: '-inf' if x == -INF else 'inf' if x == INF else 'SIZE_MAX' if x == SIZE_MAX else str(int(x))
    return '[%s, %s]' % (f(lo), f(hi))


def params(f):
    return [Poly.atom(('param', p.get('name') or 'arg%d' % i)) for i, p in enumerate(f['params'])]


def only_params(v, ps):
    atoms = [p.as_atom() for p in ps]
    return isinstance(v, Poly) and all(a in atoms for a in v.atoms(deep=False))


def analyse(ctx, rule, inst, tu, f, this=None):
    fl = Flow([tu])
    try:
        # failure branches of assert() (only present in asserts-on variants) state preconditions; they are not paths of the contract
        return [p for p in fl.analyse(0, f, this=this) if not is_assert_path(p)]
    except RuntimeError as e:
        ctx.undecided(rule, inst, 'value-flow analysis did not converge: %s' % e, tu.fn_loc(f))
        return None


def report(ctx, p, rule, inst, why, loc, key):
    if p is not None and p.approx:
        ctx.undecided(rule, inst, '%s -- but the path is approximate: %s' % (why, '; '.join(p.approx)), loc)
    else:
        ctx.violation(rule, inst, why, loc, key=key)


# ================================================================================================
#  R-C14-1
# ================================================================================================
def check_malloc_cpp(ctx, tu, tag, keytag):
    R = 'R-C14-1'
    n = 0
    fam_used = None
    fs = [f for f in tu.fns(q=AM, dep=False) if tu.cfg(f) is not None and not f.get('targs') and len(f['params']) == 2]
    gs = [f for f in tu.fns(q=AF, dep=False) if tu.cfg(f) is not None and len(f['params']) == 1]
    if len(fs) != 1 or len(gs) != 1:
        ctx.broken('%s: anchors %s(size_t,size_t) / %s(void*) not found in %s [%s]' % (R, AM, AF, tu.unit, tag))
        return 0
    f, g = fs[0], gs[0]
    file = tu.fn_file(f)
    inst = 'alignedMalloc [%s]' % tag
    key = '%s|%s|alignedMalloc|%s:' % (R, file, keytag)
    paths = analyse(ctx, R, inst, tu, f)
    n += 1
    if paths is not None:
        size, align = params(f)
        bad = False
        allocating = 0
        for p in paths:
            if p.kind != 'return':
                ctx.undecided(R, inst, 'a path does not return (throws or aborts)', tu.fn_loc(f))
                bad = True
                continue
            wrong = p.calls(lambda q: bare(q) in UNALIGNED)
            if wrong:
                bad = True
                report(ctx, p, R, inst, 'memory is obtained from %s, which ignores the requested alignment' % wrong[0][1],
                       wrong[0][4], key + 'unaligned-allocator')
                continue
            al = p.calls(lambda q: bare(q) in FAMILIES)
            if not al:
                if p.ret is not None and p.ret.as_int() == 0:
                    continue        # returning null is allowed by the contract
                bad = True
                ctx.undecided(R, inst, 'a path returns %s without calling a known aligned allocation primitive' % show_val(p.ret),
                              tu.fn_loc(f))
                continue
            if len(al) > 1:
                bad = True
                ctx.undecided(R, inst, 'several allocation calls on one path', al[1][4])
                continue
            e = al[0]
            allocating += 1
            q = bare(e[1])
            fam = FAMILIES[q]
            args = e[3]
            if fam_used is None:
                fam_used = q
            elif fam_used != q:
                ctx.undecided(R, inst, 'different allocation primitives on different paths (%s, %s)' % (fam_used, q), e[4])
                bad = True
            if len(args) <= max(fam['size'], fam['align']):
                ctx.undecided(R, inst, 'unexpected argument list of %s' % q, e[4])
                bad = True
                continue
            sa, aa = args[fam['size']], args[fam['align']]
            if sa != size or aa != align:
                bad = True
                if sa == align and aa == size:
                    report(ctx, p, R, inst, '%s receives (size, align) in swapped positions: size argument is `%s`, alignment '
                           'argument is `%s`' % (q, show_val(sa), show_val(aa)), e[4], key + 'arguments-swapped')
                elif only_params(sa, [size, align]) and only_params(aa, [size, align]):
                    report(ctx, p, R, inst, '%s receives size `%s` and alignment `%s`; required: the caller\'s size and align unchanged'
                           % (q, show_val(sa), show_val(aa)), e[4], key + 'arguments-not-passed-through')
                else:
                    ctx.undecided(R, inst, '%s receives size `%s` and alignment `%s`; cannot relate them to the parameters'
                                  % (q, show_val(sa), show_val(aa)), e[4])
                continue
            # the result
            ret = strip_site(p.ret) if p.ret is not None else None
            if 'out' in fam:
                callatom = [a for a in (Poly.atom(x) for x in ())]  # placeholder, see below
                rc_lo, rc_hi = result_bounds(p, e)
                success = (rc_lo == 0 and rc_hi == 0)
                if success:
                    if not (isinstance(ret, tuple) and ret[0] == 'out' and ret[1] == e[1] and ret[2] == fam['out']):
                        bad = True
                        report(ctx, p, R, inst, 'on success of %s the function returns %s, required: the pointer it stored'
                               % (q, show_val(p.ret)), tu.fn_loc(f), key + 'result-not-returned')
                elif rc_lo <= 0 <= rc_hi:
                    bad = True
                    ctx.undecided(R, inst, 'the status of %s is not tested on this path' % q, e[4])
                elif p.ret is None or p.ret.as_int() != 0:
                    bad = True
                    report(ctx, p, R, inst, 'on failure of %s the function returns %s, required: null' % (q, show_val(p.ret)),
                           tu.fn_loc(f), key + 'failure-not-null')
            else:
                if not (isinstance(ret, tuple) and ret[0] == 'call' and ret[1] == e[1]) and not (p.ret is not None and p.ret.as_int() == 0):
                    bad = True
                    if p.ret is not None and only_params(p.ret, [size, align]):
                        report(ctx, p, R, inst, 'the function returns %s instead of the block obtained from %s' % (show_val(p.ret), q),
                               tu.fn_loc(f), key + 'result-not-returned')
                    else:
                        ctx.undecided(R, inst, 'the function returns %s; cannot relate it to the result of %s' % (show_val(p.ret), q),
                                      tu.fn_loc(f))
        if not bad and allocating:
            ctx.ok(R, inst, '%s(size, align) in the right positions, result returned' % fam_used, tu.fn_loc(f))
        elif not bad:
            ctx.undecided(R, inst, 'no path allocates', tu.fn_loc(f))
    # ---- alignedFree
    inst = 'alignedFree [%s]' % tag
    key = '%s|%s|alignedFree|%s:' % (R, file, keytag)
    paths = analyse(ctx, R, inst, tu, g)
    n += 1
    if paths is not None:
        ptr = params(g)[0]
        bad = False
        for p in paths:
            if p.kind != 'return':
                ctx.undecided(R, inst, 'a path does not return', tu.fn_loc(g))
                bad = True
                continue
            fr = p.calls(lambda q: bare(q) in FREES)
            if not fr:
                lo, hi = p.bounds(ptr.as_atom())
                if hi == 0:
                    continue     # nothing to release for a null pointer
                bad = True
                report(ctx, p, R, inst, 'a path returns without releasing the block (no release primitive called)', tu.fn_loc(g),
                       key + 'not-released')
                continue
            if len(fr) > 1:
                bad = True
                report(ctx, p, R, inst, 'the block is released twice on one path (%s, %s)' % (fr[0][1], fr[1][1]), fr[1][4],
                       key + 'released-twice')
                continue
            e = fr[0]
            q = bare(e[1])
            if fam_used is not None and FAMILIES[fam_used]['free'] != q:
                bad = True
                report(ctx, p, R, inst, 'blocks are allocated with %s but released with %s; required: %s'
                       % (fam_used, q, FAMILIES[fam_used]['free']), e[4], key + 'family-mismatch')
                continue
            if not e[3] or e[3][0] != ptr:
                bad = True
                if e[3] and only_params(e[3][0], [ptr]):
                    report(ctx, p, R, inst, '%s receives `%s` instead of the pointer passed in' % (q, show_val(e[3][0])), e[4],
                           key + 'pointer-not-passed-through')
                else:
                    ctx.undecided(R, inst, '%s receives `%s`' % (q, show_val(e[3][0]) if e[3] else 'nothing'), e[4])
        if not bad:
            ctx.ok(R, inst, '%s(ptr), the release primitive of %s' % (FAMILIES[fam_used]['free'] if fam_used else '?', fam_used),
                   tu.fn_loc(g))
    return n


def result_bounds(p, ev):
    """bounds of the value returned by the call of event ev on path p"""
    for k in p.state.d:
        if isinstance(k, tuple) and k[0] == 'fact' and isinstance(k[1], tuple) and k[1][0] == 'call' and k[1][1] == ev[1]:
            return p.state.d[k]
    return (-INF, INF)


def call_atom_bounds(p, q):
    """bounds of the (unique) result atom of calls to q on path p; default for pointers if never tested"""
    for k in p.state.d:
        if isinstance(k, tuple) and k[0] == 'fact' and isinstance(k[1], tuple) and k[1][0] == 'call' and k[1][1] == q:
            return p.state.d[k]
    return (0, SIZE_MAX)


# ================================================================================================
#  R-C14-2
# ================================================================================================
def check_allocator(ctx, tu, tag):
    R = 'R-C14-2'
    n = 0
    recs = [r for r in tu.records.values() if r.get('tmpl') == ALLOC and r.get('targs') and len(r['targs']) == 2]
    file = 'rkcommon/containers/aligned_allocator.h'
    for r in recs:
        sz = r['targs'][0].get('size')
        try:
            A = int(r['targs'][1].get('v'))
        except (TypeError, ValueError):
            A = None
        if not sz or A is None:
            ctx.undecided(R, r['type'], 'cannot read sizeof(T) / the alignment argument from the instantiation', file)
            continue
        M = SIZE_MAX // sz
        short = r['type'].replace('rkcommon::containers::', '')
        members = [f for f in tu.functions.values() if f.get('recid') == r['id'] and not f['dep'] and tu.cfg(f) is not None]
        names = {}
        for f in members:
            names.setdefault(f['q'].rsplit('::', 1)[-1], []).append(f)
        for need in ('allocate', 'deallocate', 'max_size'):
            if need not in names:
                ctx.broken('%s: %s::%s has no body in %s' % (R, short, need, tu.unit))
        this = Poly.atom(('this',))
        # ---- max_size
        for f in names.get('max_size', []):
            n += 1
            inst = '%s::max_size [%s]' % (short, tag)
            paths = analyse(ctx, R, inst, tu, f, this)
            if paths is None:
                continue
            vals = {p.ret.as_int() if (p.kind == 'return' and p.ret is not None) else None for p in paths}
            if vals == {M}:
                ctx.ok(R, inst, 'returns %d == SIZE_MAX / %d' % (M, sz), tu.fn_loc(f))
            elif None not in vals:
                ctx.violation(R, inst, 'max_size() returns %s, required: SIZE_MAX / sizeof(T) = %d (sizeof(T) = %d)'
                              % (sorted(vals), M, sz), tu.fn_loc(f), key='%s|%s|aligned_allocator::max_size|value' % (R, file))
            else:
                ctx.undecided(R, inst, 'max_size() is not a compile-time constant (%s)'
                              % ', '.join(sorted({show_val(p.ret) for p in paths})), tu.fn_loc(f))
        # ---- deallocate
        for f in names.get('deallocate', []):
            n += 1
            inst = '%s::deallocate [%s]' % (short, tag)
            paths = analyse(ctx, R, inst, tu, f, this)
            if paths is None:
                continue
            ptr = params(f)[0]
            bad = False
            for p in paths:
                fr = p.calls(lambda q: q == AF)
                other = p.calls(lambda q: bare(q) in FREES)
                if p.kind != 'return':
                    bad = True
                    ctx.undecided(R, inst, 'a path does not return', tu.fn_loc(f))
                elif other:
                    bad = True
                    ctx.violation(R, inst, 'the block (obtained from alignedMalloc) is released with %s, required: alignedFree'
                                  % other[0][1], other[0][4], key='%s|%s|aligned_allocator::deallocate|not-alignedFree' % (R, file))
                elif not fr and p.bounds(ptr.as_atom())[1] == 0:
                    continue        # the pointer is null on this path (guarded by p == nullptr): nothing to release
                elif len(fr) != 1:
                    bad = True
                    plo, phi = p.bounds(ptr.as_atom())
                    report(ctx, p, R, inst, 'alignedFree is called %d times on a path where the pointer %s, required: once'
                           % (len(fr), 'is non-null' if plo >= 1 else 'can be non-null'), tu.fn_loc(f),
                           '%s|%s|aligned_allocator::deallocate|alignedFree-count' % (R, file))
                elif fr[0][3][0] != ptr:
                    bad = True
                    if only_params(fr[0][3][0], params(f)):
                        report(ctx, p, R, inst, 'alignedFree receives `%s` instead of the pointer to release' % show_val(fr[0][3][0]),
                               fr[0][4], '%s|%s|aligned_allocator::deallocate|pointer-not-passed-through' % (R, file))
                    else:
                        ctx.undecided(R, inst, 'alignedFree receives `%s`' % show_val(fr[0][3][0]), fr[0][4])
            if not bad:
                ctx.ok(R, inst, 'alignedFree(p)', tu.fn_loc(f))
        # ---- allocate (plain and hinted)
        for f in names.get('allocate', []):
            n += 1
            hinted = len(f['params']) == 2
            inst = '%s::allocate%s [%s]' % (short, '(n, hint)' if hinted else '(n)', tag)
            key = '%s|%s|aligned_allocator::allocate|' % (R, file)
            paths = analyse(ctx, R, inst, tu, f, this)
            if paths is None:
                continue
            check_allocate_paths(ctx, R, inst, key, tu, f, paths, sz, A, M)
    return n


def size_covers(sa, N, sz, lo, hi, p):
    """Is the requested byte count `sa` at least n*sizeof(T) for every n in [lo, hi] (the range of n on path p)?
    -> (True, description) | (False, (key-suffix, reason)) | (None, why-unrecognised).
    Accepted forms: n*sizeof(T) itself; n*sizeof(T) plus a non-negative padding that is a polynomial in n; rounding up to a
    multiple of a power of two a with a full-width mask, (n*sizeof(T) + a-1) & ~(a-1).  Wrapping of the sub-expressions is a
    separate obligation (wrap events).  Rejected: anything whose value is provably smaller than n*sizeof(T) for some n of the
    range - in particular an AND with a constant whose high bits are clear (the result is bounded by the constant while
    n*sizeof(T) is not)."""
    want = N * sz
    Na = N.as_atom()
    if sa == want:
        return True, want.show()
    bnd = lambda a: (lo, hi) if a == Na else p.bounds(a)
    a = sa.as_atom() if isinstance(sa, Poly) else None
    if isinstance(a, tuple) and a and a[0] == 'and' and len(a) == 3:
        ops = [a[1], a[2]]
        consts = [x for x in ops if isinstance(x, Poly) and x.as_int() is not None]
        others = [x for x in ops if not (isinstance(x, Poly) and x.as_int() is not None)]
        if len(consts) != 1 or len(others) != 1 or not isinstance(others[0], Poly):
            return None, 'bit-and of two non-constant values'
        mask, P = consts[0].as_int(), others[0]
        low = SIZE_MAX + 1 - mask              # a full-width alignment mask is 2^64 - a with a a power of two
        if 0 < low <= 2 ** 63 and (low & (low - 1)) == 0:
            if not all(x == Na for x in P.atoms(deep=False)):
                return None, 'the masked value is not a polynomial in n'
            d = P - want
            dlo, dhi = d.range(bnd)
            if dlo >= low - 1:
                return True, '%s rounded up to a multiple of %d' % (want.show(), low)
            if dhi < low - 1:
                return False, ('size-rounded-down', 'masking with ~%d rounds `%s` *down*, below n * sizeof(T) (only adding at least %d '
                               'first rounds up)' % (low - 1, P.show(), low - 1))
            return None, 'padding before the mask is not uniform'
        # a mask with clear high bits: the result never exceeds the mask, n*sizeof(T) does
        wlo, whi = want.range(bnd)
        if whi > mask:
            first = mask // sz + 1
            return False, ('size-truncated-by-mask', 'the bit mask %#x has its high bits clear (a %d-bit mask widened to size_t), so the '
                           'result is at most %d while n * sizeof(T) reaches %d: for n in %s the block is too small'
                           % (mask, mask.bit_length(), mask, int(whi), rng(max(lo, first), hi)))
        return None, 'bit-and with the constant %#x' % mask
    if isinstance(sa, Poly) and all(x == Na for x in sa.atoms(deep=False)):
        dlo, dhi = (sa - want).range(bnd)
        if dlo >= 0:
            return True, sa.show()
        return False, ('wrong-size', 'for some n in %s it is smaller by up to %d bytes' % (rng(lo, hi), int(-dlo)))
    return None, 'unrecognised size expression'


def check_allocate_paths(ctx, R, inst, key, tu, f, paths, sz, A, M):
    N = params(f)[0]
    Na = N.as_atom()
    want_size = N * sz
    bad = False
    summary = []
    for p in paths:
        lo, hi = p.bounds(Na)
        lo, hi = max(lo, 0), min(hi, SIZE_MAX)
        allocs = p.calls(lambda q: q == AM)
        wraps = [e for e in p.events if e[0] == 'wrap']
        if p.kind != 'return':
            th = p.throws()
            if not th:
                bad = True
                ctx.undecided(R, inst, 'a path for n in %s ends in a noreturn call' % rng(lo, hi), tu.fn_loc(f))
                continue
            ty = th[-1][1]
            if ty == 'std::length_error':
                if lo <= M:
                    bad = True
                    report(ctx, p, R, inst, 'std::length_error is thrown for n in %s although max_size() = %d: a request that fits is '
                           'rejected' % (rng(lo, min(hi, M)), M), th[-1][2], key + 'length_error-for-fitting-request')
                elif allocs:
                    bad = True
                    report(ctx, p, R, inst, 'alignedMalloc is called before the overflow check throws', allocs[0][4],
                           key + 'allocation-before-overflow-check')
                else:
                    summary.append('n in %s: length_error' % rng(lo, hi))
            elif ty == 'std::bad_alloc':
                rlo, rhi = call_atom_bounds(p, AM)
                if hi > M:
                    bad = True
                    report(ctx, p, R, inst, 'for n in %s (> max_size() = %d) the allocator throws std::bad_alloc, required: '
                           'std::length_error' % (rng(max(lo, M + 1), hi), M), th[-1][2], key + 'wrong-exception-for-overflow')
                elif not allocs or rhi != 0:
                    bad = True
                    report(ctx, p, R, inst, 'std::bad_alloc is thrown for n in %s on a path where the allocation %s'
                           % (rng(lo, hi), 'was not attempted' if not allocs else 'may have succeeded (the block leaks)'),
                           th[-1][2], key + 'bad_alloc-without-null-result')
                else:
                    summary.append('n in %s, null result: bad_alloc' % rng(lo, hi))
            else:
                bad = True
                if lo > M:
                    report(ctx, p, R, inst, 'for n in %s (> max_size()) the allocator throws %s, required: std::length_error'
                           % (rng(lo, hi), ty), th[-1][2], key + 'wrong-exception-for-overflow')
                else:
                    ctx.undecided(R, inst, 'throws %s for n in %s' % (ty, rng(lo, hi)), th[-1][2])
            continue
        # ---- returning paths
        if hi > M:
            bad = True
            what = 'the size product `%s` wraps around' % wraps[0][1] if wraps else 'no std::length_error is thrown'
            report(ctx, p, R, inst, 'for n in %s (> max_size() = SIZE_MAX/%d = %d) %s%s' % (
                rng(max(lo, M + 1), hi), sz, M, what,
                ' and alignedMalloc is asked for a block that is too small' if allocs else ''),
                (allocs[0][4] if allocs else tu.fn_loc(f)), key + 'overflow-not-rejected')
            continue
        if not allocs:
            if hi == 0 and p.ret is not None and p.ret.as_int() == 0:
                summary.append('n == 0: nullptr')
                continue
            bad = True
            report(ctx, p, R, inst, 'for n in %s the function returns %s without allocating' % (rng(lo, hi), show_val(p.ret)),
                   tu.fn_loc(f), key + 'no-allocation')
            continue
        if len(allocs) > 1:
            bad = True
            ctx.undecided(R, inst, 'alignedMalloc is called more than once on a path', allocs[1][4])
            continue
        e = allocs[0]
        sa, aa = e[3][0], e[3][1] if len(e[3]) > 1 else None
        if wraps:
            bad = True
            report(ctx, p, R, inst, 'for n in %s the unsigned expression `%s` can wrap' % (rng(lo, hi), wraps[0][1]), wraps[0][2],
                   key + 'size-product-can-wrap')
        verdict, why = size_covers(sa, N, sz, lo, hi, p)
        if verdict is False:
            bad = True
            report(ctx, p, R, inst, 'alignedMalloc is asked for `%s` bytes, required: at least n * sizeof(T) = %s; %s'
                   % (show_val(sa), want_size.show(), why[1]), e[4], key + why[0])
            continue
        if verdict is None:
            bad = True
            ctx.undecided(R, inst, 'alignedMalloc is asked for `%s` bytes; cannot relate it to n * sizeof(T) (%s)' % (show_val(sa), why), e[4])
            continue
        if wraps:
            continue
        size_note = why
        if aa is None or aa.as_int() != A:
            bad = True
            if aa is not None and aa.as_int() is not None:
                report(ctx, p, R, inst, 'alignedMalloc is asked for alignment %s, required: the template argument %d'
                       % (show_val(aa), A), e[4], key + 'alignment-argument-not-forwarded')
            else:
                ctx.undecided(R, inst, 'alignment argument `%s` is not the template argument %d' % (show_val(aa), A), e[4])
            continue
        rlo, rhi = call_atom_bounds(p, AM)
        ret = strip_site(p.ret) if p.ret is not None else None
        if rlo <= 0:
            bad = True
            report(ctx, p, R, inst, 'for n in %s a null result of alignedMalloc is returned to the caller, required: std::bad_alloc'
                   % rng(lo, hi), tu.fn_loc(f), key + 'null-result-not-bad_alloc')
            continue
        if not (isinstance(ret, tuple) and ret[0] == 'call' and ret[1] == AM):
            bad = True
            if p.ret is not None and (p.ret.is_const() or only_params(p.ret, params(f))):
                report(ctx, p, R, inst, 'the function returns %s instead of the allocated block' % show_val(p.ret), tu.fn_loc(f),
                       key + 'result-not-returned')
            else:
                ctx.undecided(R, inst, 'the function returns %s' % show_val(p.ret), tu.fn_loc(f))
            continue
        summary.append('n in %s: alignedMalloc(%s, %d)' % (rng(lo, hi), size_note, A))
    if not bad:
        ctx.ok(R, inst, '; '.join(sorted(set(summary))), tu.fn_loc(f))


# ================================================================================================
#  R-C14-3
# ================================================================================================
def check_typed_malloc(ctx, tu, tag):
    R = 'R-C14-3'
    n = 0
    file = 'rkcommon/memory/malloc.h'
    for f in tu.fns(q=AM, dep=False):
        if not f.get('targs') or tu.cfg(f) is None or len(f['params']) != 2:
            continue
        szs = set()
        for x in tu.walk(tu.body(f)):
            if x.get('kind') == 'UnaryExprOrTypeTraitExpr' and x.get('name', 'sizeof') == 'sizeof':
                cv = tu.sd(x).get('cv')
                if cv is not None:
                    szs.add(int(cv))
        inst = 'alignedMalloc<%s> [%s]' % (f['targs'][0], tag)
        n += 1
        if len(szs) != 1:
            ctx.undecided(R, inst, 'cannot find the element size used by the typed overload (sizeof values: %s)' % sorted(szs),
                          tu.fn_loc(f))
            continue
        sz = szs.pop()
        M = SIZE_MAX // sz
        paths = analyse(ctx, R, inst, tu, f)
        if paths is None:
            continue
        count, align = params(f)
        key = '%s|%s|alignedMalloc<T>|' % (R, file)
        bad = False
        summary = []
        for p in paths:
            lo, hi = p.bounds(count.as_atom())
            lo, hi = max(lo, 0), min(hi, SIZE_MAX)
            allocs = p.calls(lambda q: q == AM)
            wraps = [e for e in p.events if e[0] == 'wrap']
            if p.kind != 'return':
                summary.append('n in %s: %s' % (rng(lo, hi), ', '.join('throws ' + t[1] for t in p.throws()) or 'noreturn'))
                if allocs and wraps:
                    bad = True
                continue
            if not allocs:
                if p.ret is not None and p.ret.as_int() == 0:
                    summary.append('n in %s: nullptr' % rng(lo, hi))
                    continue
                bad = True
                ctx.undecided(R, inst, 'returns %s without allocating' % show_val(p.ret), tu.fn_loc(f))
                continue
            e = allocs[0]
            sa, aa = e[3][0], e[3][1] if len(e[3]) > 1 else None
            if wraps:
                bad = True
                report(ctx, p, R, inst, 'for element counts in %s the byte count `%s` exceeds SIZE_MAX and wraps (sizeof(T) = %d): '
                       'alignedMalloc is asked for a smaller block than the caller will use and reports success'
                       % (rng(max(lo, M + 1), hi), show_val(sa), sz), e[4], key + 'size-product-can-wrap')
                continue
            if sa != count * sz or aa != align:
                bad = True
                if only_params(sa, [count, align]) and aa is not None and only_params(aa, [count, align]):
                    report(ctx, p, R, inst, 'alignedMalloc receives (%s, %s), required: (n * sizeof(T), align)' % (show_val(sa), show_val(aa)),
                           e[4], key + 'arguments-not-passed-through')
                else:
                    ctx.undecided(R, inst, 'alignedMalloc receives (%s, %s)' % (show_val(sa), show_val(aa)), e[4])
                continue
            ret = strip_site(p.ret) if p.ret is not None else None
            if not (isinstance(ret, tuple) and ret[0] == 'call' and ret[1] == AM):
                bad = True
                ctx.undecided(R, inst, 'returns %s, not the allocated block' % show_val(p.ret), tu.fn_loc(f))
                continue
            summary.append('n in %s: alignedMalloc(%s, align)' % (rng(lo, hi), (count * sz).show()))
        if not bad:
            ctx.ok(R, inst, '; '.join(sorted(set(summary))), tu.fn_loc(f))
    return n


# ================================================================================================
#  R-C14-4
# ================================================================================================
def unconv(v):
    """strip integral conversions around a value"""
    while isinstance(v, Poly):
        a = v.as_atom()
        if isinstance(a, tuple) and a and a[0] == 'conv':
            v = a[2]
        else:
            break
    return v


def check_is_aligned(ctx, tu, tag):
    R = 'R-C14-4'
    fs = [f for f in tu.fns(q='rkcommon::memory::isAligned', dep=False) if tu.cfg(f) is not None]
    if len(fs) != 1 or len(fs[0]['params']) != 2:
        ctx.broken('%s: anchor rkcommon::memory::isAligned(void*, int) not found' % R)
        return 0
    f = fs[0]
    inst = 'isAligned [%s]' % tag
    key = '%s|%s|isAligned|' % (R, tu.fn_file(f))
    paths = analyse(ctx, R, inst, tu, f)
    if paths is None:
        return 1
    ptr, al = [x.as_atom() for x in params(f)]
    for p in paths:
        if p.kind != 'return' or p.ret is None:
            ctx.undecided(R, inst, 'a path does not return a value', tu.fn_loc(f))
            return 1
    if len(paths) != 1:
        ctx.undecided(R, inst, 'isAligned has %d paths; expected a single expression' % len(paths), tu.fn_loc(f))
        return 1
    a = paths[0].ret.as_atom()
    if not (isinstance(a, tuple) and a[0] == 'bool' and a[1][0] == 'rel'):
        ctx.undecided(R, inst, 'returned value %s is not a single comparison' % show_val(paths[0].ret), tu.fn_loc(f))
        return 1
    rel = a[1][1]
    pa = rel.p.as_atom()
    c = rel.p.const_term()
    core = None
    for x in rel.p.atoms(deep=False):
        core = x if core is None else False
    ok_operands = False
    form = None
    if isinstance(core, tuple) and core and core[0] == 'mod' and len(core) == 3:
        ok_operands = strip_site(core[1]) == ptr and strip_site(core[2]) == al
        form = 'p % a'
    elif isinstance(core, tuple) and core and core[0] == 'and' and len(core) == 3:
        ops = [unconv(core[1]), unconv(core[2])]
        for x, y in (ops, ops[::-1]):
            if strip_site(x) == ptr and isinstance(y, Poly) and y.atoms(deep=False):
                a0 = y.atoms(deep=False)[0]
                lin = y.linear_in(a0)
                if lin and lin[0] == 1 and lin[1].as_int() == -1 and strip_site(a0) == al:
                    ok_operands = True
        form = 'p & (a - 1)'
    if core is None or core is False or form is None:
        ctx.undecided(R, inst, 'returned comparison `%s` is not of the form p %% a == 0' % rel.show(), tu.fn_loc(f))
        return 1
    if not ok_operands:
        ctx.violation(R, inst, 'the alignment test `%s` does not relate the pointer to the alignment argument (required: p %% a == 0)'
                      % rel.show(), tu.fn_loc(f), key=key + 'operands')
    elif rel.op == '==' and pa is not None and c == 0:
        ctx.ok(R, inst, '%s == 0' % form, tu.fn_loc(f))
    else:
        ctx.violation(R, inst, 'isAligned returns `%s`, required: %s == 0' % (rel.show(), form), tu.fn_loc(f), key=key + 'relation')
    return 1


# ================================================================================================
#  W-C14
# ================================================================================================
def check_witness(ctx, compiler, std, tag):
    W = 'W-C14'
    rc, err = ctx.front.compile_check(WITNESS, 'TBB', std=std, compiler=compiler)
    inst = 'witness/c14_types.cpp [%s]' % tag
    if rc == 0:
        ctx.ok(W, inst, 'all static_asserts hold: AlignedVector<T> == std::vector<T, aligned_allocator<T,64>>, rebind_alloc<T> keeps 64, '
               'pointer is T*', 'verif:' + WITNESS)
        return 1
    failed = sorted(set(re.findall(r'static[_ ]assert(?:ion)? failed.*?"(W\d)[^"]*"', err)) |
                    set(re.findall(r'static assertion failed: (W\d)', err)))
    other = [l for l in err.splitlines() if re.search(r':\s*(fatal )?error:', l) and 'static' not in l]
    if failed and not other:
        texts = {m[0]: m[1] for m in re.findall(r'"(W\d) ([^"]*)"', open(ctx.front.unit_path(WITNESS)).read())}
        for w in failed:
            ctx.violation(W, inst, 'static_assert %s fails: %s' % (w, texts.get(w, '')), 'verif:' + WITNESS,
                          key='%s|rkcommon/containers/AlignedVector.h|AlignedVector|%s' % (W, w))
    else:
        ctx.broken('%s: witness does not compile for another reason than a failed static_assert:\n%s' % (W, err[-1500:]))
    return 1


# ================================================================================================
def run(ctx):
    ctx.describe('R-C14-1', 'alignedMalloc/alignedFree: matching aligned allocate/release primitives per configuration, (size, align) '
                            'and ptr passed through unchanged in the right positions')
    ctx.describe('R-C14-2', 'aligned_allocator<T,A>: length_error exactly for n > SIZE_MAX/sizeof(T) and before allocating; size '
                            'n*sizeof(T) cannot wrap; alignment A forwarded; null -> bad_alloc; max_size; deallocate -> alignedFree')
    ctx.describe('R-C14-3', 'typed alignedMalloc<T>(count, align): count*sizeof(T) cannot wrap where the block is requested')
    ctx.describe('R-C14-4', 'isAligned(p, a) is p % a == 0')
    ctx.describe('W-C14', 'AlignedVector<T> allocates through aligned_allocator<T,64> (static_assert witnesses)')
    ctx.assume('scalable_aligned_malloc, _mm_malloc, posix_memalign honour their alignment and size arguments; std::vector uses '
               'its allocator as the standard prescribes')
    ctx.assume('shipped configuration: NDEBUG (the power-of-two assert in alignedMalloc is not a guard); LP64 (size_t is 64 bit)')
    ND = ('-DNDEBUG',)
    APPLE = ('-DNDEBUG', '-D__APPLE__', '-D__aarch64__')
    mal = [('TBB', 'TBB', ND, 'tbb'), ('OMP', 'OMP', ND, 'non-tbb'), ('INTERNAL', 'INTERNAL', ND, 'non-tbb'), ('DEBUG', 'DEBUG', ND, 'non-tbb'),
           ('DEBUG', 'DEBUG arm64-macOS', APPLE, 'arm64-macos')]
    drv = [('TBB', 'c++11', 'TBB')]
    if ctx.tier == 'thorough':
        mal += [('TBB', 'TBB asserts-on', (), 'tbb'), ('DEBUG', 'DEBUG asserts-on', (), 'non-tbb'),
                ('TBB', 'TBB arm64-macOS', APPLE, 'tbb')]
        drv += [('DEBUG', 'c++11', 'DEBUG'), ('TBB', 'gnu++17', 'TBB gnu++17')]
    jobs = [dict(unit=MALLOC, config=c, extra=ex) for c, _, ex, _ in mal]
    jobs += [dict(unit=DRIVER, config=c, std=std, extra=ND) for c, std, _ in drv]
    tus = ctx.front.parse_many(jobs)
    ctx.note('the _WIN32 branch of malloc.cpp (_aligned_malloc/_aligned_free) cannot be parsed with the Linux headers and is not analysed')
    n1 = n2 = n3 = n4 = 0
    for (c, tag, ex, keytag), tu in zip(mal, tus):
        n1 += check_malloc_cpp(ctx, tu, tag, keytag)
    for (c, std, tag), tu in zip(drv, tus[len(mal):]):
        n2 += check_allocator(ctx, tu, tag)
        n3 += check_typed_malloc(ctx, tu, tag)
        n4 += check_is_aligned(ctx, tu, tag)
    nw = check_witness(ctx, 'clang++', 'c++11', 'clang++ c++11')
    if ctx.tier == 'thorough':
        nw += check_witness(ctx, 'g++', 'c++11', 'g++ c++11')
        nw += check_witness(ctx, 'clang++', 'gnu++17', 'clang++ gnu++17')
    ctx.floor('R-C14-1', n1, 2 * len(mal), 'alignedMalloc + alignedFree per allocator configuration')
    ctx.floor('R-C14-2', n2, 24 * len(drv), '9 instantiations x (allocate, deallocate, max_size) + 2 hinted overloads = 29 per driver parse')
    ctx.floor('R-C14-3', n3, 4 * len(drv), '6 typed instantiations per driver parse')
    ctx.floor('R-C14-4', n4, len(drv), 'isAligned')
    ctx.floor('W-C14', nw, 1, 'witness unit')
    from rkstatic import selftest
    selftest.run(ctx)
