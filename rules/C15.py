"""C15 - stream serialization stays inside its buffer and writer/reader framings agree.

Decided statically (DESIGN.md section 5, C15):
  R-C15-1  exact bounds: on every CFG path of BufferReader::read/getView, FixedBufferWriter::write/reserve and
           BufferWriter::write, each memcpy / pointer hand-out at `buffer + off` of length `len` happens under
           a path condition whose integer normal form is exactly `off + len - capacity <= 0` (weaker: overflow,
           stronger: rejects what fits); the failing path throws before anything was copied or advanced; the
           cursor advances by exactly the transferred length; end()/available()/capacity()/getWrittenView()
           have the normal forms cursor>=size / size-cursor / size / [0,cursor).
  R-C15-2  wire signatures: every operator<< / operator>> the compiler selects for the operand types of the
           driver is abstracted to a sequence of FIELD(width,value) / RAW(object,width) / DATA(container,bytes)
           / REPEAT(count, element signature); writer and reader of the same type are paired item by item.
           Raw object images are only allowed for trivially copyable types (compile witness).
  R-C15-3  stale pointer: a pointer obtained from buffer->begin()/data() is never used after a later resize; no data
           member caches a pointer or size of the shared (growable) buffer across calls.
  R-C15-4  WriteSizeCalculator::write adds exactly `size` on every path.
  R-C15-5  size prediction: for every written probe type the operator selected when the static stream type is
           WriteSizeCalculator is the one selected for a WriteStream, or accounts exactly the same byte count.
  R-C15-6  the array type behind BufferWriter::buffer keeps its cached (pointer, size) in step with the storage it owns
           across moves (special-member facts of the record + bodies of user-provided move operations).
  R-C15-7  the view returned by getWrittenView() shares the allocation it points into (not just the owner object).
Not decided: equality of the values after a round trip (needs the run-time contents), wrap-around of
`cursor + size` for sizes near SIZE_MAX, behaviour after user code modified the public cursor/buffer members.
"""
import os
import re

from rkstatic.x_linform import (Poly, Evaluator, implies_le, negate, show, show_rel, relation, upper_bound, lower_bound,
                                small_model, atom_name, poly_value)

LEVEL = 'other'
EXPLANATION = (
    "Path-sensitive propagation of integer normal forms (cursor, size, capacity as symbols) over the clang CFGs of "
    "the reader/writer members decides, for all sizes and capacities at once, that each copy or view is guarded by "
    "exactly `cursor + size <= capacity`, that failing requests throw before touching anything, that the cursor "
    "advances by exactly the transferred length and that no buffer pointer survives a resize. A structural "
    "abstraction of every stream operator selected by the compiler's overload resolution to a wire signature "
    "(length fields with their width, raw object images, data blocks, repeats) is paired writer against reader "
    "for arithmetic types, structs, strings, vectors (nested, of strings) and all array wrapper types; the operator "
    "selected for a WriteSizeCalculator must be the same or account the same byte count; no member caches buffer state. "
    "Not decided: value equality after a round trip, wrap-around of cursor+size near SIZE_MAX.")

NET = 'rkcommon::networking::'
UTIL = 'rkcommon::utility::'
ARRAY_RECS = {UTIL + 'AbstractArray', UTIL + 'ArrayView', UTIL + 'FixedArray', UTIL + 'FixedArrayView',
              UTIL + 'OwnedArray'}
MEMCPY = {'memcpy', 'std::memcpy', 'memmove', 'std::memmove', '__builtin_memcpy', '__builtin_memmove'}


class Undecided(Exception):
    pass


ALIGNUPS = {}      # align-up atoms -> (inner Poly, alignment)


def derived_atoms(polys):
    """evaluation functions for the align-up atoms occurring in the given Polys (for witness search)"""
    out = {}
    for p in polys:
        for a in p.atoms():
            if isinstance(a, tuple) and a[0] == 'alignup' and a in ALIGNUPS:
                inner, al = ALIGNUPS[a]

                def fn(env, inner=inner, al=al):
                    v = poly_value(inner, env)
                    return None if v is None else (v + al - 1) // al * al
                fn.needs = tuple(inner.atoms())
                out[a] = fn
    return out


UNSIGNED = {'unsigned long': 2 ** 64 - 1, 'unsigned long long': 2 ** 64 - 1, 'unsigned int': 2 ** 32 - 1,
            'const unsigned long': 2 ** 64 - 1, 'const unsigned int': 2 ** 32 - 1}


def short(q):
    return q.replace(NET, '').replace(UTIL, '')


# =====================================================================================================
#  Part 1: path-sensitive normal-form propagation over the buffer classes
# =====================================================================================================
class St:
    """abstract state on one CFG path"""

    def __init__(self, fields, bufsize):
        self.fields = dict(fields)      # member name -> Poly
        self.vars = {}                  # local decl id -> value (Poly | ptr tuple)
        self.bufsize = bufsize          # Poly: current buffer->size()
        self.bufgen = 0                 # number of resizes so far
        self.cons = []                  # [(Poly, op)] path condition
        self.opaque = []                # branch conditions without a normal form (text)
        self.events = []                # (kind, ...) in order
        self.trace = []                 # block ids
        self.callvals = {}              # call node id -> value returned by an inlined helper
        self.subs = {}                  # node id -> (a, b, text) of every unsigned subtraction a - b evaluated so far
        self.inv = []                   # Polys F with F <= 0 known at entry (class invariant: cursor <= capacity)
        self.wrap = []                  # notes: unsigned subtractions that wrap on this path

    def copy(self):
        s = St(self.fields, self.bufsize)
        s.vars = dict(self.vars)
        s.bufgen = self.bufgen
        s.cons = list(self.cons)
        s.opaque = list(self.opaque)
        s.events = list(self.events)
        s.trace = list(self.trace)
        s.callvals = dict(self.callvals)
        s.subs = dict(self.subs)
        s.inv = list(self.inv)
        s.wrap = list(self.wrap)
        return s


def is_ptr(v):
    return isinstance(v, tuple) and v and v[0] == 'ptr'


class BufEngine:
    """Propagates normal forms along every path of a loop-free member function."""

    def __init__(self, tu, f, depth=0, objparam=None, objrec=None):
        self.tu = tu
        self.f = f
        self.depth = depth
        self.objparam = objparam        # free function working on a reader / writer passed by reference
        self.objrec = objrec
        self.buf_mode = False           # analysing a member of the buffer's own array class: `this` is the buffer
        self.params = {p['id']: p for p in f.get('params', [])}
        self.signed = {p['name'] for p in f.get('params', []) if p['ct'].replace('const ', '') not in UNSIGNED
                       and not p['ct'].rstrip().endswith('*') and not p['ct'].rstrip().endswith('&')}
        self.buf_obj_alias = set()      # parameters bound to the buffer array itself (helper called with *buffer)
        self.buf_sp_alias = set()       # parameters bound to the shared_ptr holding it
        rec = tu.records.get(f.get('recid')) if objrec is None else objrec
        self.rec = rec
        self.recq = rec['q'] if rec else None
        self.buf_field = None
        if rec:
            for fd in rec['fields']:
                ct = fd['ct'].replace('const ', '')
                if ct.startswith('std::shared_ptr<' + UTIL) and 'View<' not in ct and self.buf_field is None:
                    self.buf_field = fd['name']     # the array itself; shared_ptr<...View> members are derived data

    # ---- object recognition
    def is_self(self, e):
        """does e designate the reader / writer object being analysed (this, *this, or the reference parameter)"""
        tu = self.tu
        if e is None:
            return False
        if tu.is_this(e):
            return self.objparam is None
        x = tu.strip(e, casts=True)
        if x is not None and x.get('kind') == 'UnaryOperator' and x.get('opcode') == '*' and tu.is_this(tu.kids(x)[0]):
            return self.objparam is None
        return self.objparam is not None and x is not None and x.get('kind') == 'DeclRefExpr' and \
            x.get('referencedDecl', {}).get('id') == self.objparam

    def mos(self, e):
        """member name if e is a data member of the analysed object"""
        tu = self.tu
        if self.objparam is None:
            return tu.member_of_this(e)
        x = tu.strip(e)
        if x is not None and x.get('kind') == 'MemberExpr' and tu.kids(x) and self.is_self(tu.kids(x)[0]):
            return x.get('name')
        return None

    def is_buf_sp(self, e):
        """is e the shared_ptr member holding the buffer"""
        e = self.tu.strip(e, casts=True)
        if e is None:
            return False
        if self.buf_field is not None and self.mos(e) == self.buf_field:
            return True
        if e.get('kind') == 'DeclRefExpr':
            did = e.get('referencedDecl', {}).get('id')
            if did in self.buf_sp_alias:
                return True
            p = self.params.get(did)
            if p is not None and p['ct'].replace('const ', '').startswith('std::shared_ptr<' + UTIL) and \
                    self.depth == 0:
                return True
        return False

    def derived_from_buffer(self, v):
        """does the value depend on the current storage / size of the buffer object"""
        if is_ptr(v) and v[1] == 'buf':
            return True
        if isinstance(v, Poly) and ('sym', 'capacity') in v.atoms():
            return True
        return False

    def is_buf_obj(self, e, d=0):
        """does e designate the array object the buffer member points to: buffer->, *buffer, buffer.get()"""
        tu = self.tu
        e = tu.strip(e, casts=True)
        if e is None or d > 6:
            return False
        k = e.get('kind')
        if self.buf_mode:
            if tu.is_this(e) or (k == 'UnaryOperator' and e.get('opcode') == '*' and tu.is_this(tu.kids(e)[0])):
                return True
            # the storage vector of the array (mirrored by the AbstractArray base: same size, same data)
            if k == 'MemberExpr' and tu.kids(e) and tu.is_this(tu.kids(e)[0]) and \
                    re.match(r'^std::vector<', tu.sd(e).get('ct', '').replace('const ', '')):
                return True
        if k == 'DeclRefExpr' and e.get('referencedDecl', {}).get('id') in self.buf_obj_alias:
            return True
        if k == 'UnaryOperator' and e.get('opcode') == '*':
            return self.is_buf_obj(tu.kids(e)[0], d + 1)
        if k == 'CXXOperatorCallExpr':
            sd, obj, args = tu.call_parts(e)
            if sd.get('q', '').split('::')[-1] in ('operator->', 'operator*') and obj is not None:
                return self.is_buf_sp(obj)
        if k == 'CXXMemberCallExpr':
            sd, obj, args = tu.call_parts(e)
            if sd.get('q', '').split('::')[-1] == 'get' and obj is not None:
                return self.is_buf_sp(obj)
        return False

    # ---- evaluation
    def evaluator(self, st):
        tu = self.tu

        def var(n, did):
            if did in st.vars:
                v = st.vars[did]
                if is_ptr(v) and getattr(self, 'ptr_truth', False):
                    # a pointer in a null test: parameter pointers are symbols; the address of a local is non-null;
                    # a pointer into the buffer is null exactly when the buffer is empty (AbstractArray::setPtr)
                    if isinstance(v[1], tuple) and v[1][0] == 'param' and v[3] == Poly.const(0):
                        return Poly.atom(('param', v[1][1]))
                    if isinstance(v[1], tuple) and v[1][0] == 'local':
                        return Poly.const(1)
                    if v[1] == 'buf':
                        return st.bufsize
                return v if isinstance(v, Poly) else None
            p = self.params.get(did)
            if p is not None:
                return Poly.atom(('param', p['name']))
            return None

        def member(n):
            nm = self.mos(n)
            if nm is not None and nm in st.fields:
                return st.fields[nm]
            return None

        def call(n):
            if n.get('id') in st.callvals:
                v = st.callvals[n['id']]
                return v if isinstance(v, Poly) else None
            v = self.call_value(n, st)
            return v if isinstance(v, Poly) else None

        def on_sub(n, a, b):
            if tu.sd(n).get('ct', '') in UNSIGNED:
                st.subs[n['id']] = (a, b, tu.show(n), UNSIGNED[tu.sd(n)['ct']])

        return Evaluator(tu, var, member, call, on_sub=on_sub)

    # ---- unsigned arithmetic: a - b is the integer a - b only if b <= a
    def facts(self, st):
        return list(st.inv) + [p for p, op in st.cons if op == '<='] + [q for p, op in st.cons if op == '==' for q in (p, -p)]

    def bounded_atoms(self, poly):
        """all atoms are unsigned quantities (members, buffer size, unsigned parameters)"""
        for a in poly.atoms():
            if isinstance(a, tuple) and a[0] == 'param' and a[1] in self.signed:
                return False
        return True

    def subs_in(self, e, st, seen=None, depth=0):
        """unsigned subtractions that feed expression e (through local variables)"""
        tu = self.tu
        out = []
        seen = set() if seen is None else seen
        if e is None or depth > 6:
            return out
        for x in tu.walk(e):
            if x.get('id') in st.subs and x['id'] not in seen:
                seen.add(x['id'])
                out.append((x['id'],) + st.subs[x['id']])
            if x.get('kind') == 'DeclRefExpr':
                vd = tu.node(x.get('referencedDecl', {}).get('id'))
                if vd is not None and vd.get('kind') == 'VarDecl' and tu.kids(vd) and vd['id'] not in seen:
                    seen.add(vd['id'])
                    out += self.subs_in(tu.kids(vd)[0], st, seen, depth + 1)
            if x.get('kind') == 'CXXMemberCallExpr' and tu.callee_fn(x) is not None and \
                    tu.callee_fn(x).get('rec') == self.f.get('rec') and tu.callee_fn(x)['id'] not in seen and depth < 3:
                seen.add(tu.callee_fn(x)['id'])
                b = tu.body(tu.callee_fn(x))
                if b is not None:
                    # a const member evaluated in place (available()): its subtractions were recorded when it ran
                    pass
        return out

    def branch_states(self, c, st):
        """-> [(edge index, state)] for a two-way branch on condition c, with unsigned wrap-around cases split off"""
        tu = self.tu
        ev = self.evaluator(st)
        rel = ev.rel(c) if c is not None else None
        if rel is None and c is not None:
            # null tests of pointer variables (`dst == nullptr`, `!src`)
            self.ptr_truth = True
            try:
                rel = self.evaluator(st).rel(c)
            finally:
                self.ptr_truth = False
        res = []

        # the address of a local object is never null
        c0_, neg0 = c, False
        while c0_ is not None and c0_.get('kind') == 'UnaryOperator' and c0_.get('opcode') == '!':
            neg0 = not neg0
            c0_ = tu.strip(tu.kids(c0_)[0])
        pv0 = self.val(c0_, st) if c0_ is not None and c0_.get('kind') == 'DeclRefExpr' else None
        if is_ptr(pv0) and isinstance(pv0[1], tuple) and pv0[1][0] == 'local':
            return [(1 if neg0 else 0, st.copy())]
        # the condition is the boolean result of an inlined helper (`end()`, `!fitsInBuffer(...)`): its returned relation
        cv0 = st.callvals.get(c0_.get('id')) if c0_ is not None else None
        if rel is None and isinstance(cv0, tuple) and cv0 and cv0[0] == 'rel':
            r0 = list(cv0[1])
            if not neg0:
                rel = r0
            elif len(r0) == 1:
                rel = [negate(r0[0])]

        def feasible(s_):
            for p_, op_ in s_.cons:
                cv_ = p_.const_value()
                if cv_ is not None and not (cv_ <= 0 if op_ == '<=' else cv_ == 0 if op_ == '==' else cv_ != 0):
                    return False
            return True

        def plain(base, rel_):
            return [(i_, s_) for i_, s_ in plain0(base, rel_) if feasible(s_)]

        def plain0(base, rel_):
            out = []
            for idx in (0, 1):
                s2 = base.copy()
                if rel_ is None:
                    s2.opaque.append(('%s' if idx == 0 else '!(%s)') % tu.show(c))
                elif idx == 0:
                    s2.cons.extend(rel_)
                elif len(rel_) == 1:
                    s2.cons.append(negate(rel_[0]))
                else:
                    s2.opaque.append('!(%s)' % tu.show(c))
                out.append((idx, s2))
            return out

        unproven = []
        for nid, a, b, text, hi in (self.subs_in(c, st) if c is not None else []):
            d = b - a
            ub = upper_bound(d, self.facts(st), hi) if self.bounded_atoms(d) else None
            if ub is None or ub > 0:
                unproven.append((nid, a, b, text, hi))
        if not unproven:
            return plain(st, rel)
        neg = False
        cc = c
        while cc is not None and cc.get('kind') == 'UnaryOperator' and cc.get('opcode') == '!':
            neg = not neg
            cc = tu.strip(tu.kids(cc)[0])
        if len(unproven) == 1 and cc is not None and cc.get('kind') == 'BinaryOperator' and \
                cc.get('opcode') in ('<', '>', '<=', '>=', '==', '!='):
            nid, a, b, text, hi = unproven[0]
            l, r = tu.kids(cc)
            lp, rp = ev.ev(l), ev.ev(r)
            d = a - b
            if lp is not None and rp is not None and (lp == d) != (rp == d) and self.bounded_atoms(lp + rp):
                # case 1: b <= a, the subtraction is the integer difference
                s1 = st.copy()
                s1.cons.append((b - a, '<='))
                res += plain(s1, rel)
                # case 2: b > a, the unsigned result is a - b + 2^N
                s2 = st.copy()
                s2.cons.append((a - b + 1, '<='))
                M = hi + 1
                lw, rw = (lp + M, rp) if lp == d else (lp, rp + M)
                P, op = relation(lw, cc['opcode'], rw, neg)
                fs = self.facts(s2)
                ub, lb = upper_bound(P, fs, hi), lower_bound(P, fs, hi)
                truth = None
                if op == '<=':
                    truth = True if (ub is not None and ub <= 0) else False if (lb is not None and lb >= 1) else None
                elif (ub is not None and ub < 0) or (lb is not None and lb > 0):
                    truth = (op == '!=')
                note = 'for `%s` > `%s` the unsigned subtraction `%s` wraps around to a huge value, so `%s` is %s' % (
                    show(b), show(a), text, tu.show(c), {True: 'always true', False: 'always false', None: 'undetermined'}[truth])
                s2.wrap.append(note)
                if truth is None:
                    for idx in (0, 1):
                        s3 = s2.copy()
                        s3.opaque.append(note)
                        res.append((idx, s3))
                else:
                    res.append((0 if truth else 1, s2))
                return res
        # a possibly wrapping subtraction in a position that is not modelled: no integer reading of the condition
        out = []
        for idx in (0, 1):
            s2 = st.copy()
            s2.opaque.append('%s (unsigned subtraction `%s` may wrap)' % (('%s' if idx == 0 else '!(%s)') % tu.show(c), unproven[0][3]))
            out.append((idx, s2))
        return out

    def call_value(self, n, st):
        tu = self.tu
        if n.get('kind') != 'CXXMemberCallExpr':
            return None
        sd, obj, args = tu.call_parts(n)
        name = sd.get('q', '').split('::')[-1]
        if obj is not None and self.is_buf_obj(obj) and (sd.get('rec') in ARRAY_RECS or (self.buf_mode and sd.get('rec') == 'std::vector')):
            if name == 'size' and not args:
                return st.bufsize
            if name in ('begin', 'data', 'cbegin') and not args:
                return ('ptr', 'buf', st.bufgen, Poly.const(0))
            if name in ('end', 'cend') and not args:
                return ('ptr', 'buf', st.bufgen, st.bufsize)
            return None
        # a const member of the analysed class with a body: evaluate it in the current state
        if obj is not None and self.is_self(obj) and sd.get('rec') == self.recq and self.depth < 3:
            callee = tu.callee_fn(n)
            if callee is not None and callee.get('const') and tu.cfg(callee) is not None and not args:
                sub = BufEngine(tu, callee, self.depth + 1)
                s0 = St(st.fields, st.bufsize)
                s0.bufgen = st.bufgen
                try:
                    outs = sub.run(s0)
                except Undecided:
                    return None
                rets = [o for o in outs if o[0] == 'return']
                if len(outs) == 1 and len(rets) == 1 and not [e for e in rets[0][1].events if e[0] != 'return']:
                    return rets[0][2]
        return None

    def val(self, e, st, d=0):
        """Poly, ('ptr', base, gen, off) or None"""
        tu = self.tu
        e = tu.strip(e, casts=True)
        if e is None or d > 30:
            return None
        k = e.get('kind')
        ct = tu.sd(e).get('ct', '')
        if e.get('id') in st.callvals:
            return st.callvals[e['id']]
        if k == 'ConditionalOperator' and ('cond', e.get('id')) in st.callvals:
            return self.val(tu.kids(e)[1 + st.callvals[('cond', e['id'])]], st, d + 1)
        if k == 'DeclRefExpr':
            did = e.get('referencedDecl', {}).get('id')
            if did in st.vars:
                return st.vars[did]
            p = self.params.get(did)
            if p is not None:
                if p['ct'].rstrip().endswith('*'):
                    return ('ptr', ('param', p['name']), 0, Poly.const(0))
                return Poly.atom(('param', p['name']))
            return None
        if k == 'CXXMemberCallExpr':
            v = self.call_value(e, st)
            if v is not None:
                return v
        if k == 'BinaryOperator' and e.get('opcode') in ('+', '-'):
            ks = tu.kids(e)
            a = self.val(ks[0], st, d + 1)
            b = self.val(ks[1], st, d + 1)
            if is_ptr(a) and isinstance(b, Poly):
                return ('ptr', a[1], a[2], a[3] + b if e['opcode'] == '+' else a[3] - b)
            if is_ptr(b) and isinstance(a, Poly) and e['opcode'] == '+':
                return ('ptr', b[1], b[2], b[3] + a)
            if isinstance(a, Poly) and isinstance(b, Poly):
                return a + b if e['opcode'] == '+' else a - b
            return None
        if k == 'CXXOperatorCallExpr' and tu.sd(e).get('q', '').split('::')[-1] in ('operator+', 'operator-') and \
                '__normal_iterator' in tu.sd(e).get('q', ''):
            sd_, obj_, args_ = tu.call_parts(e)
            a = self.val(obj_, st, d + 1) if obj_ is not None else None
            b = self.val(args_[0], st, d + 1) if len(args_) == 1 else None
            if is_ptr(a) and isinstance(b, Poly):
                return ('ptr', a[1], a[2], a[3] + b if sd_['q'].endswith('+') else a[3] - b)
            return None
        if k == 'BinaryOperator' and e.get('opcode') == '&':
            # (x + a - 1) & ~(a - 1) with a power of two a: x rounded up to a multiple of a
            l_, r_ = tu.kids(e)
            for x_, m_ in ((l_, r_), (r_, l_)):
                mv = self.const_of(m_, st)
                xv = self.val(x_, st, d + 1)
                if mv is None or not isinstance(xv, Poly):
                    continue
                a_ = (2 ** 64 - mv) if mv > 2 ** 63 else None
                if a_ is None or a_ & (a_ - 1) or xv.t.get((), 0) != a_ - 1:
                    continue
                inner = xv - (a_ - 1)
                atom = ('alignup', show(inner), a_)
                ALIGNUPS[atom] = (inner, a_)
                return Poly.atom(atom)
            return None
        if k == 'UnaryOperator' and e.get('opcode') == '&':
            # &buffer->operator[](k), &(*buffer)[k], &buffer->at(k)
            x = tu.strip(tu.kids(e)[0], casts=True)
            if x is not None and x.get('kind') == 'DeclRefExpr' and x.get('referencedDecl', {}).get('id') not in self.params:
                return ('ptr', ('local', x['referencedDecl']['id'], x['referencedDecl'].get('name', '?')), 0, Poly.const(0))
            if x is not None and x.get('kind') in ('CXXOperatorCallExpr', 'CXXMemberCallExpr'):
                sd, obj, args = tu.call_parts(x)
                if obj is not None and self.is_buf_obj(obj) and sd.get('q', '').split('::')[-1] in ('operator[]', 'at') \
                        and len(args) == 1:
                    o = self.val(args[0], st, d + 1)
                    if isinstance(o, Poly):
                        return ('ptr', 'buf', st.bufgen, o)
            return None
        return self.evaluator(st).ev(e)

    def const_of(self, e, st, d=0):
        """unsigned 64-bit value of a constant expression built from literals, sizeof, const locals, ~ - + *"""
        tu = self.tu
        x = tu.strip(e, casts=True)
        if x is None or d > 8:
            return None
        cv = tu.sd(x).get('cv')
        if cv is not None:
            return int(cv) % (2 ** 64)
        k = x.get('kind')
        if k == 'UnaryOperator' and x.get('opcode') == '~':
            v = self.const_of(tu.kids(x)[0], st, d + 1)
            return None if v is None else (~v) % (2 ** 64)
        if k == 'BinaryOperator' and x.get('opcode') in ('+', '-', '*'):
            a, b = (self.const_of(y, st, d + 1) for y in tu.kids(x))
            if a is None or b is None:
                return None
            return (a + b if x['opcode'] == '+' else a - b if x['opcode'] == '-' else a * b) % (2 ** 64)
        v = self.val(x, st)
        if isinstance(v, Poly) and v.const_value() is not None:
            return v.const_value() % (2 ** 64)
        return None

    # ---- transfer
    def lhs_target(self, e):
        """('field', name) | ('var', id) | None for an assignable expression"""
        tu = self.tu
        e = tu.strip(e)
        if e is None:
            return None
        nm = self.mos(e)
        if nm is not None:
            return ('field', nm)
        if e.get('kind') == 'DeclRefExpr':
            return ('var', e.get('referencedDecl', {}).get('id'))
        return None

    def assign(self, st, tgt, v, node=None):
        if tgt[0] == 'field':
            st.events.append(('touch', tgt[1], node))
        if tgt[0] == 'field' and tgt[1] != self.buf_field and self.derived_from_buffer(v):
            st.events.append(('cache', tgt[1], node, v))
        if tgt[0] == 'field':
            if not isinstance(v, Poly) and tgt[1] in st.fields:
                raise Undecided('member `%s` receives a value without an integer normal form' % tgt[1])
            st.fields[tgt[1]] = v
        else:
            st.vars[tgt[1]] = v

    def read_target(self, st, tgt):
        if tgt[0] == 'field':
            return st.fields.get(tgt[1])
        return st.vars.get(tgt[1])

    def step(self, n, st):
        """apply the effect of CFG statement element n; returns 'throw' | 'return' | None"""
        tu = self.tu
        k = n.get('kind')
        if k == 'DeclStmt':
            for vd in n.get('inner', ()):
                if isinstance(vd, dict) and vd.get('kind') == 'VarDecl':
                    init = tu.kids(vd)
                    st.vars[vd['id']] = self.val(init[0], st) if init else None
            return None
        if k == 'BinaryOperator' and n.get('opcode') == '=':
            ks = tu.kids(n)
            tgt = self.lhs_target(ks[0])
            if tgt is None:
                raise Undecided('assignment to `%s` is not understood' % tu.show(ks[0]))
            self.assign(st, tgt, self.val(ks[1], st), n['id'])
            return None
        if k == 'CompoundAssignOperator':
            ks = tu.kids(n)
            tgt = self.lhs_target(ks[0])
            op = n.get('opcode')
            if tgt is None or op not in ('+=', '-='):
                raise Undecided('compound assignment `%s` is not understood' % tu.show(n))
            cur = self.read_target(st, tgt)
            d = self.val(ks[1], st)
            if isinstance(cur, Poly) and isinstance(d, Poly):
                self.assign(st, tgt, cur + d if op == '+=' else cur - d)
            elif is_ptr(cur) and isinstance(d, Poly):
                self.assign(st, tgt, ('ptr', cur[1], cur[2], cur[3] + d if op == '+=' else cur[3] - d))
            else:
                self.assign(st, tgt, None)
            return None
        if k == 'UnaryOperator' and n.get('opcode') in ('++', '--'):
            tgt = self.lhs_target(tu.kids(n)[0])
            if tgt is None:
                raise Undecided('`%s` is not understood' % tu.show(n))
            cur = self.read_target(st, tgt)
            one = 1 if n['opcode'] == '++' else -1
            if isinstance(cur, Poly):
                self.assign(st, tgt, cur + one)
            else:
                self.assign(st, tgt, None)
            return None
        if k in ('CXXMemberCallExpr', 'CXXOperatorCallExpr'):
            sd_, obj_, args_ = tu.call_parts(n)
            nm_ = sd_.get('q', '').split('::')[-1]
            m_ = self.mos(obj_) if obj_ is not None else None
            if m_ is not None and m_ != self.buf_field and nm_ in ('operator=', 'reset', 'clear', 'assign', 'swap'):
                st.events.append(('touch', m_, n['id']))
        if k == 'CXXMemberCallExpr' and tu.sd(n).get('q', '').split('::')[-1] in ('assign', 'append') and \
                tu.sd(n).get('q', '').startswith('std::basic_string') and len(tu.call_parts(n)[2]) == 2:
            a0, a1 = tu.call_parts(n)[2]
            pv, lv_ = self.val(a0, st), self.val(a1, st)
            if is_ptr(pv) and pv[1] == 'buf':
                st.events.append(('memcpy', ('ptr', ('user', tu.show(tu.call_parts(n)[1])), 0, Poly.const(0)), pv, lv_, n['id'],
                                  st.bufgen, st.bufsize))
                return None
        if k == 'CXXMemberCallExpr':
            sd, obj, args = tu.call_parts(n)
            name = sd.get('q', '').split('::')[-1]
            if obj is not None and self.is_buf_obj(obj):
                if name == 'resize' and args:
                    nv = self.val(args[0], st)
                    if not isinstance(nv, Poly):
                        raise Undecided('new size in `%s` has no normal form' % tu.show(n))
                    st.events.append(('resize', st.bufsize, nv, n['id']))
                    st.bufsize = nv
                    st.bufgen += 1
                    return None
                if (sd.get('rec') in ARRAY_RECS or (self.buf_mode and sd.get('rec') == 'std::vector')) and \
                        name in ('size', 'begin', 'data', 'cbegin', 'end', 'cend', 'at', 'operator[]', 'setPtr'):
                    return None
                raise Undecided('call `%s` on the buffer is not modelled' % tu.show(n))
            if obj is not None and self.is_self(obj) and sd.get('rec') == self.recq:
                callee = tu.callee_fn(n)
                if callee is None or not callee.get('const'):
                    raise Undecided('call of the non-const member `%s` is not modelled' % tu.show(n))
            return None
        if k == 'CallExpr':
            sd, obj, args = tu.call_parts(n)
            q = sd.get('q', '')
            if q in MEMCPY and len(args) == 3:
                dst, src, ln = (self.val(a, st) for a in args)
                st.events.append(('memcpy', dst, src, ln, n['id'], st.bufgen, st.bufsize))
                return None
            if q in ('std::copy_n', 'std::copy') and len(args) == 3:
                # element-wise copies of byte ranges are bounded block transfers like memcpy
                def esize(a):
                    ct_ = tu.sd(tu.strip(a)).get('ct', '')
                    mi = re.search(r'__normal_iterator<(?:const )?([\w ]+?) ?\*', ct_)
                    pt = mi.group(1).strip() if mi else re.sub(r'\bconst\s+|\s*\*\s*(const)?$', '', ct_).strip()
                    return {'unsigned char': 1, 'char': 1, 'signed char': 1}.get(pt)
                if q == 'std::copy_n':
                    src, cnt, dst = self.val(args[0], st), self.val(args[1], st), self.val(args[2], st)
                    es = esize(args[0])
                    ln = cnt * es if isinstance(cnt, Poly) and es else None
                else:
                    src, last, dst = self.val(args[0], st), self.val(args[1], st), self.val(args[2], st)
                    es = esize(args[0])
                    ln = (last[3] - src[3]) * es if is_ptr(src) and is_ptr(last) and src[1:3] == last[1:3] and es else None
                if ln is None or esize(args[2]) != es:
                    raise Undecided('`%s`: length or element size of the copy is not understood' % tu.show(n))
                st.events.append(('memcpy', dst, src, ln, n['id'], st.bufgen, st.bufsize))
                return None
            if q == 'std::make_shared':
                self.handout(n, args, sd.get('ct', ''), st)
                return None
            for a in args:
                v = self.val(a, st)
                if is_ptr(v) and v[1] == 'buf':
                    raise Undecided('buffer pointer escapes into `%s`' % tu.show(n))
            return None
        if k in ('CXXConstructExpr', 'CXXTemporaryObjectExpr'):
            sd, obj, args = tu.call_parts(n)
            if sd.get('rec') in (UTIL + 'ArrayView', UTIL + 'FixedArrayView'):
                self.handout(n, args, sd.get('cty', ''), st)
            return None
        if k == 'ReturnStmt':
            ks = tu.kids(n)
            rv = self.val(ks[0], st) if ks else None
            if ks and rv is None:
                rel = self.evaluator(st).rel(ks[0])
                if rel is not None:
                    rv = ('rel', rel)
            if is_ptr(rv) and rv[1] == 'buf':
                st.events.append(('retptr', rv, n['id'], st.bufgen, st.bufsize))
            st.events.append(('return', rv, n['id']))
            return 'return'
        if k == 'CXXThrowExpr':
            st.events.append(('throw', tu.sd(n).get('tty'), n['id']))
            return 'throw'
        return None

    def handout(self, n, args, ty, st):
        """a view object over the buffer is created: record base offset and byte length"""
        tu = self.tu
        if 'ArrayView<' not in ty:
            for a in args:
                v = self.val(a, st)
                if is_ptr(v) and v[1] == 'buf':
                    raise Undecided('buffer pointer escapes into `%s`' % tu.show(n))
            return
        vals = [self.val(a, st) for a in args]
        esz = None
        for r in tu.records.values():
            if r['type'] and (r['type'] in ty) and r.get('tmpl') in (UTIL + 'ArrayView', UTIL + 'FixedArrayView') \
                    and r.get('targs'):
                esz = r['targs'][0].get('size')
        if esz is None:
            raise Undecided('element size of the view type `%s` unknown' % ty)
        if len(args) == 2 and is_ptr(vals[0]) and isinstance(vals[1], Poly):
            # ArrayView<T>(T *data, size_t count)
            st.events.append(('view', vals[0], vals[1] * esz, n['id'], st.bufgen, st.bufsize))
            return
        if len(args) == 3 and self.is_buf_sp(args[0]) and isinstance(vals[1], Poly) and isinstance(vals[2], Poly):
            # FixedArrayView<T>(shared_ptr<FixedArray<T>> &, offset, count)
            st.events.append(('view', ('ptr', 'buf', st.bufgen, vals[1] * esz), vals[2] * esz, n['id'], st.bufgen,
                              st.bufsize))
            return
        if not args:
            return
        raise Undecided('view construction `%s` is not understood' % tu.show(n))

    # ---- helpers: private members, file-local and detail:: functions are propagated through
    def inlinable(self, n):
        tu = self.tu
        if n.get('kind') not in ('CallExpr', 'CXXMemberCallExpr') or self.depth >= 4:
            return None
        callee = tu.callee_fn(n)
        if callee is None or tu.cfg(callee) is None or callee['id'] == self.f['id']:
            return None
        sd, obj, args = tu.call_parts(n)
        if n['kind'] == 'CXXMemberCallExpr':
            if self.buf_mode and obj is not None and self.is_buf_obj(obj) and \
                    callee['q'].split('::')[-1] in ('size', 'begin', 'data', 'cbegin', 'end', 'cend', 'at', 'operator[]', 'resize', 'setPtr'):
                return None            # primitive operations of the buffer, modelled directly
            if obj is not None and self.is_self(obj) and callee.get('rec') == self.recq and self.recq:
                return callee
            if obj is not None and self.is_buf_obj(obj) and callee.get('rec') in ARRAY_RECS and \
                    callee['q'].split('::')[-1] not in ('size', 'begin', 'data', 'cbegin', 'end', 'cend', 'at', 'operator[]', 'resize',
                                                        'setPtr'):
                return callee          # a member of the buffer's own array class (e.g. OwnedArray::append)
            return None
        if callee.get('rec') == self.recq and self.recq and callee.get('static'):
            return callee              # static member of the analysed class
        if callee['q'].startswith(NET) and not callee.get('rec') and 'operator' not in callee['q'].split('::')[-1]:
            return callee
        return None

    def inline_call(self, n, st, callee):
        """-> [('cont' | 'throw', state)] : the states after the call, one per path through the callee"""
        tu = self.tu
        sd, obj, args = tu.call_parts(n)
        sub = BufEngine(tu, callee, self.depth + 1)
        sub.buf_field = self.buf_field if callee.get('rec') == self.recq else None
        if self.buf_mode or (callee.get('rec') in ARRAY_RECS and callee.get('rec') != self.recq):
            sub.buf_mode = True
        sub.signed = self.signed
        s0 = st.copy()
        s0.vars = {}
        s0.trace = []
        for p, a in zip(callee.get('params', []), args):
            if self.is_buf_obj(a):
                sub.buf_obj_alias.add(p['id'])
                continue
            if self.is_buf_sp(a):
                sub.buf_sp_alias.add(p['id'])
                continue
            v = self.val(a, st)
            if v is None and (p['ct'].rstrip().endswith('&') and not p['ct'].startswith('const ')):
                raise Undecided('`%s` passes `%s` by reference to a helper' % (tu.show(n), tu.show(a)))
            s0.vars[p['id']] = v
        n_ev = len(st.events)
        outs = []
        for kind, s2, rv in sub.run(s0):
            r = st.copy()
            r.fields, r.bufsize, r.bufgen = dict(s2.fields), s2.bufsize, s2.bufgen
            r.cons, r.opaque = list(s2.cons), list(s2.opaque)
            r.events = [e for i, e in enumerate(s2.events) if i < n_ev or e[0] not in ('return', 'retptr')]
            r.callvals = dict(st.callvals)
            r.callvals.update({k: v for k, v in s2.callvals.items()})
            r.subs, r.wrap = dict(s2.subs), list(s2.wrap)
            for e in r.events[n_ev:]:
                if e[0] == 'memcpy' and is_ptr(e[1]) and isinstance(e[1][1], tuple) and e[1][1][0] == 'local':
                    r.vars[e[1][1][1]] = Poly.atom(('sym', 'read:' + e[1][1][2]))
            if kind == 'throw':
                outs.append(('throw', r))
            else:
                r.callvals[n['id']] = rv
                outs.append(('cont', r))
        return outs

    # ---- path enumeration
    def run(self, st0):
        """-> [(kind, state, value)] for every path; kind in return / throw / end"""
        tu = self.tu
        g = tu.cfg(self.f)
        if g is None:
            raise Undecided('no CFG')
        if g.back_edges():
            raise Undecided('function contains a loop')
        outs = []
        stack = [(g.entry, 0, st0)]
        steps = 0
        while stack:
            item = stack.pop()
            bid, start, st = item if len(item) == 3 else (item[0], 0, item[1])
            steps += 1
            if steps > 4000:
                raise Undecided('too many paths')
            blk = g.blocks[bid]
            if start == 0:
                st.trace.append(bid)
            res = None
            forked = False
            for ei, e in enumerate(blk.el):
                if ei < start:
                    continue
                if e[0] == 'I':
                    init = tu.node(e[1])
                    if init is not None and e[3] not in ('<base>', self.buf_field) and e[2] is not None:
                        x0 = init
                        if x0.get('kind') != 'CXXDefaultInitExpr':
                            try:
                                v0 = self.val(x0, st)
                            except Undecided:
                                v0 = None
                            if self.derived_from_buffer(v0):
                                st.events.append(('cache', e[3], e[1], v0))
                    if e[3] in st.fields and init is not None:
                        x = init
                        if x.get('kind') == 'CXXDefaultInitExpr':
                            fd = tu.node(e[2])
                            ks = tu.kids(fd) if fd else []
                            x = ks[-1] if ks else None
                        v = self.val(x, st) if x is not None else None
                        st.fields[e[3]] = v
                    elif e[3] == self.buf_field and init is not None:
                        for x in tu.walk(init):
                            if x.get('kind') == 'CallExpr' and tu.sd(x).get('q') == 'std::make_shared':
                                a = tu.call_parts(x)[2]
                                st.events.append(('alloc', self.val(a[0], st) if len(a) == 1 else
                                                  (Poly.const(0) if not a else None), x['id']))
                    continue
                if e[0] != 'S':
                    continue
                n = tu.node(e[1])
                if n is None:
                    continue
                if n.get('kind') == 'CXXMemberCallExpr' and tu.sd(n).get('rec') in ARRAY_RECS and \
                        tu.sd(n).get('q', '').split('::')[-1] == 'at' and tu.call_parts(n)[1] is not None and \
                        self.is_buf_obj(tu.call_parts(n)[1]) and len(tu.call_parts(n)[2]) == 1:
                    # the checked accessor throws for index >= size(): an implicit branch
                    kv = self.val(tu.call_parts(n)[2][0], st)
                    if not isinstance(kv, Poly):
                        raise Undecided('index of `%s` has no normal form' % tu.show(n))
                    s_thr = st.copy()
                    s_thr.cons.append((st.bufsize - kv, '<='))
                    s_thr.events.append(('throw', 'std::runtime_error', n['id']))
                    outs.append(('throw', s_thr, None))
                    s_ok = st.copy()
                    s_ok.cons.append((kv - st.bufsize + 1, '<='))
                    stack.append((bid, ei + 1, s_ok))
                    forked = True
                    break
                callee = self.inlinable(n)
                if callee is not None:
                    for kind2, s2 in self.inline_call(n, st, callee):
                        if kind2 == 'throw':
                            outs.append(('throw', s2, None))
                        else:
                            stack.append((bid, ei + 1, s2))
                    forked = True
                    break
                res = self.step(n, st)
                if res:
                    break
            if forked:
                continue
            if res is None and blk.noret:
                st.events.append(('throw', 'noreturn call', blk.el[-1][1] if blk.el and blk.el[-1][0] == 'S' else None))
                res = 'throw'
            if res == 'throw':
                outs.append(('throw', st, None))
                continue
            if res == 'return':
                rv = [ev for ev in st.events if ev[0] == 'return'][-1][1]
                outs.append(('return', st, rv))
                continue
            succ = [s for s in blk.succ]
            if bid == g.exit or not any(s is not None for s in succ):
                outs.append(('end', st, None))
                continue
            if blk.cond and len(succ) == 2:
                c = tu.strip(tu.node(blk.cond))
                while c is not None and c.get('kind') == 'BinaryOperator' and c.get('opcode') in ('&&', '||'):
                    c = tu.strip(tu.kids(c)[1])
                tnode = tu.node(blk.term) if blk.term else None
                for idx, s2 in self.branch_states(c, st):
                    s = succ[idx]
                    if s is None:
                        continue
                    if tnode is not None and tnode.get('kind') == 'ConditionalOperator':
                        s2.callvals[('cond', tnode['id'])] = idx
                    if s == g.exit:
                        outs.append(('end', s2, None))
                    else:
                        stack.append((s, 0, s2))
                continue
            live = [s for s in succ if s is not None]
            if len(live) != 1:
                raise Undecided('multi-way branch is not modelled')
            if live[0] == g.exit:
                outs.append(('end', st, None))
            else:
                stack.append((live[0], 0, st))
        return outs


def path_text(tu, g, st):
    return ['blocks %s' % '->'.join('B%d' % b for b in st.trace),
            'path condition: %s' % (' && '.join(show_rel(c) for c in st.cons) or 'true')]


def find_fn(tu, q, want_targs=False):
    fs = [f for f in tu.fns(q=q, dep=False) if tu.cfg(f) is not None]
    return fs


def check_access(ctx, tu, f, st, ev, rule, inst, keybase, what):
    """R-C15-1/3 for one memcpy side / view / returned pointer that points into the buffer.
    ev = (ptr, lenPoly, node, gen_at_use, bufsize_at_use)"""
    ptr, ln, nid, gen, bufsize = ev
    ok = True
    g = tu.cfg(f)
    if ptr[2] != gen:
        ctx.violation('R-C15-3', inst, '%s uses a pointer taken from the buffer before resize #%d; after the resize the '
                      'storage may have moved (stale pointer)' % (what, gen), tu.loc(nid),
                      key='R-C15-3|%s|stale-pointer' % keybase, path=path_text(tu, g, st))
        return False
    if gen > 0:
        ctx.ok('R-C15-3', inst, '%s uses a pointer obtained after resize #%d' % (what, gen), tu.loc(nid))
    if not isinstance(ln, Poly):
        ctx.undecided(rule, inst, 'length of %s has no integer normal form' % what, tu.loc(nid))
        return False
    off = ptr[3]
    if any(v < 0 for v in off.t.values()):
        ctx.undecided(rule, inst, 'offset `%s` of %s is not a sum of non-negative terms' % (show(off), what), tu.loc(nid))
        return False
    need = off + ln - bufsize
    c = need.const_value()
    if c is not None:
        if c <= 0:
            return True
        ctx.violation(rule, inst, '%s covers [%s, %s) but the buffer holds %s bytes: %d byte(s) beyond the end on every '
                      'call' % (what, show(off), show(off + ln), show(bufsize), c), tu.loc(nid),
                      key='%s|%s|overflow' % (rule, keybase), path=path_text(tu, g, st))
        return False
    if st.wrap:
        hi = 2 ** 64 - 1
        lb = lower_bound(need, list(st.inv) + [p_ for p_, op_ in st.cons if op_ == '<='], hi)
        if lb is not None and lb >= 1:
            ctx.violation(rule, inst, '%s of [%s, %s) is reached although it ends beyond the buffer (%s >= %d): %s; the bounds test '
                          'is evaluated in unsigned arithmetic and accepts the request'
                          % (what, show(off), show(off + ln), show(need), lb, st.wrap[0]), tu.loc(nid),
                          key='%s|%s|overflow' % (rule, keybase), path=path_text(tu, g, st))
            return False
    verdict, d, con = implies_le(st.cons, need)
    if verdict == 'exact':
        return True
    if verdict == 'stronger':
        ctx.violation(rule, inst, '%s of [%s, %s) is reached only under `%s`; required is exactly `%s <= 0`: the guard '
                      'rejects %d request size(s) that fit (an exact-fit request throws)'
                      % (what, show(off), show(off + ln), show_rel(con), show(need), d), tu.loc(nid),
                      key='%s|%s|rejects-exact-fit' % (rule, keybase), path=path_text(tu, g, st))
        return False
    if verdict == 'weaker':
        ctx.violation(rule, inst, '%s of [%s, %s) is reached under `%s`, which does not imply `%s <= 0`: up to %d byte(s) '
                      'beyond the buffer' % (what, show(off), show(off + ln), show_rel(con), show(need), -d), tu.loc(nid),
                      key='%s|%s|overflow' % (rule, keybase), path=path_text(tu, g, st))
        return False
    if st.opaque:
        ctx.undecided(rule, inst, '%s: path condition contains `%s`, which has no normal form' % (what, st.opaque[0]),
                      tu.loc(nid))
        return False
    wit = small_model(list(st.cons) + [(p_, '<=') for p_ in st.inv] + [(-need + 1, '<=')],
                      derived=derived_atoms([c_[0] for c_ in st.cons] + [need]))
    if wit is None:
        ctx.undecided(rule, inst, '%s of [%s, %s): the path condition (%s) is not recognised as a bound by the buffer size %s'
                      % (what, show(off), show(off + ln), ' && '.join(show_rel(c) for c in st.cons) or 'true', show(bufsize)),
                      tu.loc(nid))
        return False
    ctx.violation(rule, inst, '%s of [%s, %s) is reached on a path whose condition (%s) does not bound it by the buffer '
                  'size %s, e.g. for %s' % (what, show(off), show(off + ln), ' && '.join(show_rel(c) for c in st.cons) or 'true',
                                            show(bufsize), ', '.join('%s = %d' % (atom_name(a), v_) for a, v_ in
                                                                     sorted(wit.items(), key=lambda kv: repr(kv[0])))),
                  tu.loc(nid), key='%s|%s|unguarded' % (rule, keybase), path=path_text(tu, g, st))
    return False


def size_param(f):
    ps = [p for p in f['params'] if p['ct'] in ('unsigned long', 'unsigned long long', 'unsigned int')]
    return ps[0]['name'] if len(ps) == 1 else None


def mem_param(f):
    ps = [p for p in f['params'] if p['ct'].rstrip().endswith('*')]
    return ps[0]['name'] if len(ps) == 1 else None


def check_transfer_fn(ctx, tu, f, mode):
    """mode: 'read' (buffer -> mem), 'write' (mem -> fixed buffer), 'reserve', 'view', 'grow', 'count'"""
    R1 = 'R-C15-1'
    file = tu.fn_file(f)
    inst = short(f['q'])
    keybase = '%s|%s' % (file, short(f['q']))
    g = tu.cfg(f)
    cursor_name = 'writtenSize' if mode == 'count' else 'cursor'
    rec = tu.records.get(f.get('recid'))
    has_cursor = rec is not None and any(fd['name'] == cursor_name for fd in rec['fields'])
    if mode != 'grow' and not has_cursor:
        ctx.broken('%s: member `%s` not found in %s' % (R1, cursor_name, f.get('rec')))
        return 0
    if has_cursor:
        # the cursor / byte counter accumulates size_t amounts: it must be as wide as the amounts added to it
        cf = [fd for fd in rec['fields'] if fd['name'] == cursor_name][0]
        sp_ct = [p_['ct'] for p_ in f['params'] if p_['ct'] in ('unsigned long', 'unsigned long long', 'unsigned int')]
        wide = {'unsigned long': 8, 'unsigned long long': 8, 'long': 8, 'long long': 8, 'unsigned int': 4, 'int': 4,
                'unsigned short': 2, 'short': 2, 'unsigned char': 1}
        cw, pw = wide.get(cf['ct'].replace('const ', '')), wide.get(sp_ct[0]) if sp_ct else None
        if cw is not None and pw is not None and cw < pw:
            rid = 'R-C15-4' if mode == 'count' else R1
            ctx.violation(rid, inst, 'member `%s` has type `%s` (%d bytes) but accumulates `%s` amounts (%d bytes): the sum is '
                          'truncated modulo 2^%d, e.g. a message of 4 GiB or more is %s' %
                          (cursor_name, cf['ct'], cw, sp_ct[0], pw, 8 * cw,
                           'predicted too small by WriteSizeCalculator' if mode == 'count' else 'positioned wrongly'),
                          tu.fn_loc(f), key='%s|%s|narrow-counter' % (rid, keybase))
    c0 = Poly.atom(('field', cursor_name + '0'))
    cap = Poly.atom(('sym', 'capacity'))
    st0 = St({cursor_name: c0} if has_cursor else {}, cap)
    if has_cursor and mode != 'count':
        st0.inv = [c0 - cap]      # class invariant established by this very rule: 0 <= cursor <= buffer size
    eng = BufEngine(tu, f)
    if mode != 'count' and eng.buf_field is None:
        ctx.broken('%s: buffer member of %s not found' % (R1, f.get('rec')))
        return 0
    sp = size_param(f)
    if sp is None:
        ctx.undecided(R1, inst, 'cannot identify the size parameter', tu.fn_loc(f))
        return 0
    L = Poly.atom(('param', sp))
    if mode == 'view':
        esz = None
        for r in tu.records.values():
            if r.get('tmpl') == UTIL + 'ArrayView' and r.get('targs') and f.get('targs') and \
                    r['targs'][0].get('t') == f['targs'][0]:
                esz = r['targs'][0].get('size')
        if esz is None:
            ctx.undecided(R1, inst, 'element size of the view unknown', tu.fn_loc(f))
            return 0
        L = L * esz
        inst = '%s<%s>' % (inst, f['targs'][0])
    try:
        outs = eng.run(st0)
    except Undecided as u:
        ctx.undecided(R1, inst, str(u), tu.fn_loc(f))
        return 0
    mp = mem_param(f)
    n = 0
    for kind, st, rv in outs:
        n += 1
        label = '%s [path %s]' % (inst, '->'.join('B%d' % b for b in st.trace))
        good = True
        mems = [e for e in st.events if e[0] == 'memcpy']
        views = [e for e in st.events if e[0] == 'view']
        retp = [e for e in st.events if e[0] == 'retptr']
        if kind == 'throw':
            # the failing path must not have copied or advanced anything
            if mems or views or [e for e in st.events if e[0] == 'resize'] or \
                    (has_cursor and st.fields.get(cursor_name) != c0):
                ctx.violation(R1, label, 'the throwing path has already copied data or moved the cursor (a rejected request '
                              'must leave the stream untouched)', tu.fn_loc(f), key='%s|%s|throw-after-effect' % (R1, keybase),
                              path=path_text(tu, g, st))
                good = False
            # and it must be the overflow condition, nothing else
            need0 = (c0 + L - cap) if mode not in ('grow', 'count') else None
            if need0 is None:
                ctx.violation(R1, label, 'this operation has no failure condition in its contract but a path throws',
                              tu.fn_loc(f), key='%s|%s|unexpected-throw' % (R1, keybase), path=path_text(tu, g, st))
                good = False
            else:
                v, d, con = implies_le(st.cons, -need0 + 1)
                if v is None and not st.opaque and not st.wrap:
                    # several conditions together may still imply the overflow (e.g. `size > 0 && end()`)
                    lb0 = lower_bound(need0, list(st.inv) + [p_ for p_, op_ in st.cons if op_ == '<='] +
                                      [q_ for p_, op_ in st.cons if op_ == '==' for q_ in (p_, -p_)], 2 ** 64 - 1)
                    if lb0 is not None and lb0 >= 1:
                        v = 'exact'
                wit = None
                if v is None and not st.opaque and not st.wrap:
                    # the path condition is fully modelled: is there a request that fits and still takes this path?
                    wit = small_model(list(st.cons) + [(p_, '<=') for p_ in st.inv] + [(need0, '<=')],
                                      derived=derived_atoms([c_[0] for c_ in st.cons] + [need0]))
                if wit is not None:
                    thr = [e for e in st.events if e[0] == 'throw']
                    ctx.violation(R1, label, 'throws under `%s` although the request fits (`%s <= 0`), e.g. for %s: a request that '
                                  'fits in the remaining capacity is rejected'
                                  % (' && '.join(show_rel(c) for c in st.cons), show(need0),
                                     ', '.join('%s = %d' % (atom_name(a), v_) for a, v_ in sorted(wit.items(), key=lambda kv: repr(kv[0])))),
                                  tu.loc(thr[-1][2]) if thr else tu.fn_loc(f),
                                  key='%s|%s|rejects-fitting-request' % (R1, keybase), path=path_text(tu, g, st))
                    good = False
                elif v is None:
                    ctx.undecided(R1, label, 'throws under `%s`, which is not the overflow condition `%s > 0` in normal form'
                                  % (' && '.join(show_rel(c) for c in st.cons) or '; '.join(st.opaque) or 'true', show(need0)),
                                  tu.fn_loc(f))
                    good = False
                elif v == 'weaker':
                    ctx.violation(R1, label, 'throws under `%s`: this rejects requests with `%s` in [%d, 0], which fit in the '
                                  'remaining capacity (exact fit throws)' % (show_rel(con), show(need0), d + 1), tu.fn_loc(f),
                                  key='%s|%s|rejects-exact-fit' % (R1, keybase), path=path_text(tu, g, st))
                    good = False
                # 'stronger' (throws later than necessary) is reported as overflow on the accepting path
            if good:
                ctx.ok(R1, label, 'throws exactly under %s > 0 before any effect' % show(need0), tu.fn_loc(f))
            continue
        # ---- accepting path
        if has_cursor:
            cur = st.fields.get(cursor_name)
            if cur != c0 + L:
                dv = derived_atoms([cur]) if isinstance(cur, Poly) else {}
                wit = small_model(list(st.cons) + [(p_, '<=') for p_ in st.inv] + [(cur - c0 - L, '!=')], derived=dv) \
                    if isinstance(cur, Poly) and dv and not st.opaque else ({} if not dv else None)
                if wit is None:
                    ctx.undecided(R1 if mode != 'count' else 'R-C15-4', label, 'on return %s == %s; whether that equals %s is not decided'
                                  % (cursor_name, show(cur), show(c0 + L)), tu.fn_loc(f))
                else:
                    ctx.violation(R1 if mode != 'count' else 'R-C15-4', label, 'on return %s == %s, required %s (advance by exactly '
                                  'the transferred length)%s' % (cursor_name, show(cur), show(c0 + L),
                                  (', e.g. for ' + ', '.join('%s = %d' % (atom_name(a), v_) for a, v_ in
                                                             sorted(wit.items(), key=lambda kv: repr(kv[0])) if a not in dv)) if wit else ''),
                                  tu.fn_loc(f), key='%s|%s|advance' % (R1 if mode != 'count' else 'R-C15-4', keybase),
                                  path=path_text(tu, g, st))
                good = False
        if mode == 'count':
            if good:
                ctx.ok('R-C15-4', label, 'writtenSize == writtenSize0 + size', tu.fn_loc(f))
            continue
        if mode == 'grow':
            rs = [e for e in st.events if e[0] == 'resize']
            zero_len = any(op == '==' and p_ == L for p_, op in st.cons) or \
                (any(op == '<=' and p_ == L for p_, op in st.cons))
            if not rs and zero_len:
                pass            # appending nothing: the buffer keeps its size, which is old size + 0
            elif len(rs) != 1 or rs[0][2] != cap + L:
                ctx.violation(R1, label, 'the buffer must grow to exactly old size + size once; found %s'
                              % ([show(e[2]) for e in rs] or 'no resize'), tu.fn_loc(f), key='%s|%s|grow' % (R1, keybase),
                              path=path_text(tu, g, st))
                good = False
        def is_local(p_):
            return is_ptr(p_) and isinstance(p_[1], tuple) and p_[1][0] == 'local'

        staged_hops = [e for e in mems if not (is_ptr(e[1]) and e[1][1] == 'buf') and not (is_ptr(e[2]) and e[2][1] == 'buf')
                       and (is_local(e[1]) or is_local(e[2]))]
        mems = [e for e in mems if e not in staged_hops]
        for e in mems:
            _, dst, src, ln, nid, gen, bsz = e
            bside, oside = (src, dst) if mode == 'read' else (dst, src)
            if is_local(oside):
                # the bytes pass through a local object: the other hop must move the same number of bytes between that
                # local and the user's pointer
                hop = [h for h in staged_hops if (is_local(h[2]) and h[2][1] == oside[1] and mode == 'read') or
                       (is_local(h[1]) and h[1][1] == oside[1] and mode != 'read')]
                if len(hop) == 1 and hop[0][3] == ln:
                    oside = hop[0][1] if mode == 'read' else hop[0][2]
            if not (is_ptr(bside) and bside[1] == 'buf'):
                if is_ptr(oside) and oside[1] == 'buf':
                    ctx.violation(R1, label, 'memcpy copies in the wrong direction (%s)' %
                                  ('into the buffer being read' if mode == 'read' else 'out of the buffer being written'),
                                  tu.loc(nid), key='%s|%s|direction' % (R1, keybase), path=path_text(tu, g, st))
                else:
                    ctx.undecided(R1, label, 'memcpy whose buffer-side operand `%s` is not buffer + offset' % (bside,), tu.loc(nid))
                good = False
                continue
            if not check_access(ctx, tu, f, st, (bside, ln, nid, gen, bsz), R1, label, keybase, 'memcpy'):
                good = False
                continue
            base_off = cap if mode == 'grow' else c0
            if bside[3] != base_off or ln != L:
                ctx.violation(R1, label, 'memcpy transfers [%s, %s) of the buffer; required [%s, %s)'
                              % (show(bside[3]), show(bside[3] + ln), show(base_off), show(base_off + L)), tu.loc(nid),
                              key='%s|%s|region' % (R1, keybase), path=path_text(tu, g, st))
                good = False
            if not (is_ptr(oside) and oside[1] == ('param', mp) and oside[3] == Poly.const(0)):
                ctx.violation(R1, label, 'memcpy user-side operand is not the `%s` argument' % mp, tu.loc(nid),
                              key='%s|%s|user-pointer' % (R1, keybase), path=path_text(tu, g, st))
                good = False
        if mode in ('read', 'write', 'grow') and not mems:
            # nothing copied: allowed only for a null pointer or an empty transfer
            memnull = (Poly.atom(('param', mp)), '==') in st.cons if mp else False
            empty = any(op in ('<=', '==') and p == L for p, op in st.cons)
            if not empty and not st.opaque:
                facts_ = list(st.inv) + [p_ for p_, op_ in st.cons if op_ == '<='] + \
                    [q_ for p_, op_ in st.cons if op_ == '==' for q_ in (p_, -p_)]
                ub_ = upper_bound(L, facts_, 2 ** 64 - 1)
                empty = ub_ is not None and ub_ <= 0
            if not (memnull or empty):
                lim = [c for c in st.cons if c[1] == '<=' and (c[0] - L).const_value() is not None]
                if lim or not st.opaque:
                    ctx.violation(R1, label, 'no bytes are copied on a path with condition `%s`: a non-empty transfer from a '
                                  'valid pointer is dropped' % (' && '.join(show_rel(c) for c in st.cons) or 'true'),
                                  tu.fn_loc(f), key='%s|%s|dropped-copy' % (R1, keybase), path=path_text(tu, g, st))
                else:
                    ctx.undecided(R1, label, 'no bytes are copied under `%s`' % '; '.join(st.opaque), tu.fn_loc(f))
                good = False
        if len(mems) > 1:
            ctx.undecided(R1, label, 'several memcpy calls on one path', tu.fn_loc(f))
            good = False
        for e in views:
            _, ptr, ln, nid, gen, bsz = e
            if not check_access(ctx, tu, f, st, (ptr, ln, nid, gen, bsz), R1, label, keybase, 'view'):
                good = False
            elif ptr[3] != c0 or ln != L:
                ctx.violation(R1, label, 'the view covers bytes [%s, %s); required [%s, %s)' %
                              (show(ptr[3]), show(ptr[3] + ln), show(c0), show(c0 + L)), tu.loc(nid),
                              key='%s|%s|region' % (R1, keybase), path=path_text(tu, g, st))
                good = False
        for e in retp:
            _, ptr, nid, gen, bsz = e
            if not check_access(ctx, tu, f, st, (ptr, L, nid, gen, bsz), R1, label, keybase, 'returned region'):
                good = False
            elif ptr[3] != c0:
                ctx.violation(R1, label, 'returns buffer + %s; required buffer + %s' % (show(ptr[3]), show(c0)), tu.loc(nid),
                              key='%s|%s|region' % (R1, keybase), path=path_text(tu, g, st))
                good = False
        if mode == 'view' and not views:
            ctx.undecided(R1, label, 'no view over the buffer is created on an accepting path', tu.fn_loc(f))
            good = False
        if mode == 'reserve' and not retp:
            ctx.undecided(R1, label, 'no pointer into the buffer is returned on an accepting path', tu.fn_loc(f))
            good = False
        if good:
            ctx.ok(R1, label, 'accepting path: condition %s; cursor advance %s' %
                   (' && '.join(show_rel(c) for c in st.cons) or 'true', show(L)), tu.fn_loc(f))
    return n


def check_accessors(ctx, tu):
    """end() / available() / capacity() / getWrittenView() / constructor normal forms"""
    R = 'R-C15-1'
    n = 0
    c0 = Poly.atom(('field', 'cursor0'))
    cap = Poly.atom(('sym', 'capacity'))

    def run1(q):
        fs = find_fn(tu, q)
        if not fs:
            ctx.broken('%s: anchor %s not found' % (R, q))
            return None, None
        f = fs[0]
        try:
            s0 = St({'cursor': c0}, cap)
            s0.inv = [c0 - cap]
            outs = BufEngine(tu, f).run(s0)
        except Undecided as u:
            ctx.undecided(R, short(q), str(u), tu.fn_loc(f))
            return f, None
        return f, outs

    # ---- end()
    f, outs = run1(NET + 'BufferReader::end')
    if outs is not None:
        n += 1
        inst = 'BufferReader::end'
        key = '%s|%s|%s|' % (R, tu.fn_file(f), inst)
        def truth_under(rel_, cons_):
            """True / False if the relation is decided by the path condition (interval reasoning), else None"""
            facts_ = [c0 - cap] + [p_ for p_, op_ in cons_ if op_ == '<='] + [q_ for p_, op_ in cons_ if op_ == '==' for q_ in (p_, -p_)]
            vals = []
            for p_, op_ in rel_:
                ub_, lb_ = upper_bound(p_, facts_, 2 ** 64 - 1), lower_bound(p_, facts_, 2 ** 64 - 1)
                if op_ == '<=':
                    v_ = True if ub_ is not None and ub_ <= 0 else False if lb_ is not None and lb_ >= 1 else None
                elif op_ == '==':
                    v_ = True if (ub_ is not None and ub_ <= 0 and lb_ is not None and lb_ >= 0) else \
                        False if (lb_ is not None and lb_ >= 1) or (ub_ is not None and ub_ <= -1) else None
                else:
                    v_ = True if (lb_ is not None and lb_ >= 1) or (ub_ is not None and ub_ <= -1) else \
                        False if (ub_ is not None and ub_ <= 0 and lb_ is not None and lb_ >= 0) else None
                vals.append(v_)
            if any(v_ is False for v_ in vals):
                return False
            return True if all(v_ is True for v_ in vals) else None

        multi = len(outs) > 1 and all(o[0] == 'return' and isinstance(o[2], tuple) and o[2][0] == 'rel' and not o[1].opaque for o in outs)
        if multi:
            # several paths (e.g. through a remaining() helper with a ?:): on each, the returned relation must have the
            # truth value of `cursor >= size` under that path's condition
            verdicts = []
            for kind_, st_, rv_ in outs:
                got, wantv = truth_under(rv_[1], st_.cons), truth_under([(cap - c0, '<=')], st_.cons)
                verdicts.append((got, wantv, st_, rv_))
            if all(g_ is not None and g_ == w_ for g_, w_, _, _ in verdicts):
                ctx.ok(R, inst, 'returns cursor >= size on each of its %d paths' % len(outs), tu.fn_loc(f))
            elif any(g_ is not None and w_ is not None and g_ != w_ for g_, w_, _, _ in verdicts):
                g_, w_, st_, rv_ = [v_ for v_ in verdicts if v_[0] is not None and v_[1] is not None and v_[0] != v_[1]][0]
                ctx.violation(R, inst, 'end() returns %s on the path where %s, but cursor >= size is %s there'
                              % (g_, ' && '.join(show_rel(c_) for c_ in st_.cons) or 'true', w_), tu.fn_loc(f), key=key + 'relation')
            else:
                ctx.undecided(R, inst, 'end() has %d paths whose results are not all decided' % len(outs), tu.fn_loc(f))
        elif len(outs) != 1 or outs[0][0] != 'return' or not (isinstance(outs[0][2], tuple) and outs[0][2][0] == 'rel'):
            ctx.undecided(R, inst, 'end() is not a single returned relation', tu.fn_loc(f))
        else:
            rel = outs[0][2][1]
            want = (cap - c0, '<=')
            if len(rel) == 1 and (rel[0] == want or (rel[0][1] == '==' and rel[0][0] in (cap - c0, c0 - cap))):
                ctx.ok(R, inst, 'returns cursor >= size', tu.fn_loc(f))
            elif len(rel) == 1 and (rel[0][0] - want[0]).const_value() is not None or \
                    (len(rel) == 1 and (rel[0][0] + want[0]).const_value() is not None):
                ctx.violation(R, inst, 'end() returns `%s`; required `%s` (true exactly when every byte was consumed)'
                              % (show_rel(rel[0]), show_rel(want)), tu.fn_loc(f), key=key + 'relation')
            else:
                ctx.undecided(R, inst, 'end() returns `%s`' % ' && '.join(show_rel(r) for r in rel), tu.fn_loc(f))
    # ---- available() / capacity()
    for q, want, txt in ((NET + 'FixedBufferWriter::available', cap - c0, 'size - cursor'),
                         (NET + 'FixedBufferWriter::capacity', cap, 'size')):
        f, outs = run1(q)
        if outs is None:
            continue
        n += 1
        inst = short(q)
        if len(outs) != 1 or outs[0][0] != 'return' or not isinstance(outs[0][2], Poly):
            ctx.undecided(R, inst, 'not a single returned integer expression', tu.fn_loc(f))
        elif outs[0][2] == want:
            ctx.ok(R, inst, 'returns %s' % txt, tu.fn_loc(f))
        else:
            ctx.violation(R, inst, 'returns `%s`; required `%s`' % (show(outs[0][2]), show(want)), tu.fn_loc(f),
                          key='%s|%s|%s|value' % (R, tu.fn_file(f), inst))
    # ---- getWrittenView()
    f, outs = run1(NET + 'FixedBufferWriter::getWrittenView')
    if outs is not None:
        n += 1
        inst = 'FixedBufferWriter::getWrittenView'
        vs = [e for o in outs for e in o[1].events if e[0] == 'view']

        def returned_member(st_):
            rets = [e for e in st_.events if e[0] == 'return']
            if not rets:
                return None
            x = tu.node(rets[-1][2])
            x = tu.kids(x)[0] if x is not None and tu.kids(x) else None
            hops = 0
            while x is not None and hops < 6:
                hops += 1
                x = tu.strip(x, casts=True)
                if x is not None and x.get('kind') == 'CXXConstructExpr' and len(tu.kids(x)) == 1:
                    x = tu.kids(x)[0]
                    continue
                break
            return tu.member_of_this(x) if x is not None else None

        cached = {returned_member(o[1]) for o in outs}
        if len(cached) == 1 and None not in cached and len(outs) >= 2:
            # the view is memoised in a member: correct only if the member is dropped whenever the cursor moves
            m = cached.pop()
            bad_view = [e for e in vs if not (e[1][3] == Poly.const(0) and e[2] == c0)]
            unassigned = [o for o in outs if [e for e in o[1].events if e[0] == 'view'] and
                          not [e for e in o[1].events if e[0] == 'touch' and e[1] == m]]
            if bad_view:
                ctx.violation(R, inst, 'view covers [%s, %s); required [0, cursor) = exactly what was written'
                              % (show(bad_view[0][1][3]), show(bad_view[0][1][3] + bad_view[0][2])), tu.loc(bad_view[0][3]),
                              key='%s|%s|%s|region' % (R, tu.fn_file(f), inst))
            elif unassigned or not vs:
                ctx.undecided(R, inst, 'returns the member `%s`, whose relation to a view over [0, cursor) is not understood' % m, tu.fn_loc(f))
            else:
                stale = []
                und = None
                for g_ in sorted(tu.functions.values(), key=lambda x_: (x_['f'], x_['l'])):
                    if g_.get('rec') != f.get('rec') or g_['dep'] or tu.cfg(g_) is None or g_.get('const') or g_.get('ctor') \
                            or g_.get('dtor') or g_.get('implicit') or g_['id'] == f['id']:
                        continue
                    try:
                        s1 = St({'cursor': c0}, cap)
                        s1.inv = [c0 - cap]
                        for kind_, st_, rv_ in BufEngine(tu, g_).run(s1):
                            if kind_ == 'throw':
                                continue
                            moved = st_.fields.get('cursor') != c0 or [e for e in st_.events if e[0] == 'resize']
                            if moved and not [e for e in st_.events if e[0] == 'touch' and e[1] == m]:
                                stale.append((g_, st_))
                                break
                    except Undecided as u:
                        und = (g_, str(u))
                if stale:
                    g_, st_ = stale[0]
                    ctx.violation(R, inst, 'getWrittenView() returns the view memoised in member `%s` (a view over [0, cursor) at the '
                                  'time it was created); %s moves the cursor to %s without dropping `%s`, so a later '
                                  'getWrittenView() describes less than what was written'
                                  % (m, short(g_['q']), show(st_.fields.get('cursor')), m), tu.fn_loc(g_),
                                  key='%s|%s|%s|stale-cached-view' % (R, tu.fn_file(g_), short(g_['q'])),
                                  path=path_text(tu, tu.cfg(g_), st_))
                elif und:
                    ctx.undecided(R, inst, 'memoised view `%s`: %s is not analysable (%s)' % (m, short(und[0]['q']), und[1]), tu.fn_loc(f))
                else:
                    ctx.ok(R, inst, 'memoised view over [0, cursor); every path that moves the cursor drops `%s`' % m, tu.fn_loc(f))
        elif len(outs) != 1 or len(vs) != 1:
            ctx.undecided(R, inst, 'expected one path creating one view', tu.fn_loc(f))
        else:
            _, ptr, ln, nid, gen, bsz = vs[0]
            if ptr[3] == Poly.const(0) and ln == c0:
                ctx.ok(R, inst, 'view over [0, cursor)', tu.fn_loc(f))
            else:
                ctx.violation(R, inst, 'view covers [%s, %s); required [0, cursor) = exactly what was written'
                              % (show(ptr[3]), show(ptr[3] + ln)), tu.loc(nid),
                              key='%s|%s|%s|region' % (R, tu.fn_file(f), inst))
    # ---- constructors: capacity == requested size, cursor starts at 0
    for q, rec in ((NET + 'FixedBufferWriter::FixedBufferWriter', 'FixedBufferWriter'),
                   (NET + 'BufferReader::BufferReader', 'BufferReader')):
        fs = [x for x in find_fn(tu, q) if x.get('ctor') == 'other' and not x.get('implicit')]
        if not fs:
            ctx.broken('%s: constructor %s not found' % (R, q))
            continue
        for f in fs:
            n += 1
            inst = '%s::%s(%s)' % (rec, rec, ', '.join(p['ct'] for p in f['params']))
            try:
                outs = BufEngine(tu, f).run(St({'cursor': None}, cap))
            except Undecided as u:
                ctx.undecided(R, inst, str(u), tu.fn_loc(f))
                continue
            good = True
            for kind, st, rv in outs:
                if st.fields.get('cursor') != Poly.const(0):
                    ctx.violation(R, inst, 'cursor starts at `%s`, required 0' % show(st.fields.get('cursor')), tu.fn_loc(f),
                                  key='%s|%s|%s|cursor-init' % (R, tu.fn_file(f), rec))
                    good = False
                if rec == 'FixedBufferWriter':
                    al = [e for e in st.events if e[0] == 'alloc']
                    sp = size_param(f)
                    if len(al) == 1 and al[0][1] is None and sp is not None:
                        # no polynomial form: say what the expression is; max(size, c) is recognisably more than requested
                        mk = tu.node(al[0][2])
                        a0 = tu.call_parts(mk)[2][0] if mk is not None and tu.call_parts(mk)[2] else None
                        x0 = tu.strip(a0, casts=True) if a0 is not None else None
                        txt = tu.show(a0) if a0 is not None else '?'
                        mx = None
                        if x0 is not None and x0.get('kind') == 'CallExpr' and tu.sd(x0).get('q') == 'std::max' and \
                                len(tu.call_parts(x0)[2]) == 2:
                            vs = [Evaluator(tu, lambda n_, d_: Poly.atom(('param', sp)) if any(p_['id'] == d_ and p_['name'] == sp
                                                                                             for p_ in f['params']) else None).ev(y)
                                  for y in tu.call_parts(x0)[2]]
                            cs = [v.const_value() for v in vs if v is not None and v.const_value() is not None]
                            if Poly.atom(('param', sp)) in vs and len(cs) == 1 and cs[0] >= 1:
                                mx = cs[0]
                        if mx is not None:
                            ctx.violation(R, inst, 'the buffer is allocated with `%s` bytes, not with the requested size: for %s < %d '
                                          'the writer owns %d byte(s) although fewer were asked for, so a FixedBufferWriter(0) accepts '
                                          'a write that does not fit in the capacity it was given and available() / the written view '
                                          'disagree with the request' % (txt, sp, mx, mx), tu.loc(x0),
                                          key='%s|%s|%s|capacity' % (R, tu.fn_file(f), rec))
                        else:
                            ctx.undecided(R, inst, 'the allocation size `%s` has no normal form' % txt, tu.fn_loc(f))
                        good = False
                    elif len(al) != 1 or sp is None or al[0][1] != Poly.atom(('param', sp)):
                        ctx.violation(R, inst, 'the buffer is allocated with `%s` bytes, required the requested size'
                                      % (show(al[0][1]) if al else 'no allocation'), tu.fn_loc(f),
                                      key='%s|%s|%s|capacity' % (R, tu.fn_file(f), rec))
                        good = False
            if good:
                ctx.ok(R, inst, 'cursor = 0' + ('; capacity = size' if rec == 'FixedBufferWriter' else ''), tu.fn_loc(f))
    return n


def check_no_cached_buffer_state(ctx, tu, seen):
    """R-C15-3 (members): the array behind the shared_ptr can be grown / reallocated by its writer between two
    calls, so no data member may hold a pointer or size obtained from it; every call must ask the buffer again."""
    R = 'R-C15-3'
    n = 0
    for f in sorted(tu.functions.values(), key=lambda x: (x['f'], x['l'])):
        if f['dep'] or f.get('rec') not in (NET + 'BufferReader', NET + 'BufferWriter', NET + 'FixedBufferWriter') \
                or tu.cfg(f) is None or f.get('implicit') or f.get('defaulted'):
            continue
        sig = (f['q'], f['fty'], tu.fn_file(f))
        if sig in seen:
            continue
        seen.add(sig)
        eng = BufEngine(tu, f)
        if eng.buf_field is None:
            continue
        rec = tu.records.get(f.get('recid'))
        fields = {fd['name']: Poly.atom(('field', fd['name'] + '0')) for fd in rec['fields']
                  if fd['name'] != eng.buf_field and fd['ct'] in ('unsigned long', 'unsigned int', 'int', 'long')}
        inst = '%s %s: members' % (short(f['q']), f['fty'])
        caches = []
        try:
            outs = eng.run(St(fields, Poly.atom(('sym', 'capacity'))))
            for kind, st, rv in outs:
                caches += [e for e in st.events if e[0] == 'cache']
        except Undecided:
            # fall back to the expressions themselves: a member initialiser / assignment that contains a call of
            # begin/data/size/end on the buffer
            g = tu.cfg(f)
            for b in g.blocks.values():
                for e in b.el:
                    tgt, src = None, None
                    if e[0] == 'I' and e[2] is not None and e[3] != eng.buf_field:
                        tgt, src = e[3], tu.node(e[1])
                    elif e[0] == 'S':
                        x = tu.node(e[1])
                        if x is not None and x.get('kind') == 'BinaryOperator' and x.get('opcode') == '=':
                            nm = tu.member_of_this(tu.kids(x)[0])
                            if nm is not None and nm != eng.buf_field:
                                tgt, src = nm, tu.kids(x)[1]
                    if tgt is None or src is None:
                        continue
                    for y in tu.walk(src):
                        if y.get('kind') == 'CXXMemberCallExpr':
                            sd, obj, args = tu.call_parts(y)
                            if obj is not None and eng.is_buf_obj(obj) and sd.get('q', '').split('::')[-1] in (
                                    'begin', 'data', 'size', 'end', 'cbegin', 'cend'):
                                caches.append(('cache', tgt, y['id'], None))
        n += 1
        if caches and f.get('rec') == NET + 'FixedBufferWriter':
            ctx.undecided(R, inst, 'member `%s` caches state of the fixed-size buffer; whether the FixedArray can be replaced '
                          'behind it is not tracked' % caches[0][1], tu.fn_loc(f))
        elif caches:
            for _, fld, nid, v in caches:
                what = 'a pointer into the buffer storage' if (v is None or is_ptr(v)) and not isinstance(v, Poly) else 'the buffer size'
                # members that move the cursor but leave the cached value alone make the two disagree even without a writer
                def writes_(fn_, name_):
                    for y in tu.walk(tu.body(fn_)):
                        if y.get('kind') in ('BinaryOperator', 'CompoundAssignOperator', 'UnaryOperator') and \
                                y.get('opcode') in ('=', '+=', '-=', '++', '--') and tu.kids(y) and \
                                tu.member_of_this(tu.kids(y)[0]) == name_:
                            return True
                    return False
                lag = sorted({g_['q'].split('::')[-1] for g_ in tu.functions.values()
                              if g_.get('rec') == f.get('rec') and not g_.get('dep') and tu.body(g_) is not None and not g_.get('ctor')
                              and writes_(g_, 'cursor') and not writes_(g_, fld)})
                extra = ('; moreover %s advance(s) `cursor` without adjusting `%s`, so after such a call the two disagree and the '
                         'bounds tests that use `%s` accept requests past the end' % (', '.join('`%s`' % q_ for q_ in lag), fld, fld)) \
                    if lag and what == 'the buffer size' else ''
                ctx.violation(R, inst, 'member `%s` is set to %s; the array behind the shared_ptr is grown (and its storage '
                              'moved) by the writer that shares it, so the stored value goes stale between calls: a reader '
                              'attached before further writes reads freed memory / reports end() at the old size%s'
                              % (fld, what, extra), tu.loc(nid) if nid else tu.fn_loc(f),
                              key='%s|%s|%s|cached-buffer-state' % (R, tu.fn_file(f), short(f.get('rec'))))
        else:
            ctx.ok(R, inst, 'no member receives a value derived from buffer->begin()/data()/size()', tu.fn_loc(f))
    return n


def check_external_accessors(ctx, tu, seen):
    """R-C15-1 for free functions of the networking namespace that take a BufferReader / BufferWriter /
    FixedBufferWriter by reference and touch its cursor or buffer directly (typed fast paths)"""
    R = 'R-C15-1'
    n = 0
    for f in sorted(tu.functions.values(), key=lambda x: (x['f'], x['l'])):
        if f['dep'] or f.get('rec') or tu.cfg(f) is None or not f['q'].startswith(NET):
            continue
        objs = [p for p in f.get('params', []) if re.sub(r'\bconst\s+|&', '', p['ct']).strip() in
                (NET + 'BufferReader', NET + 'BufferWriter', NET + 'FixedBufferWriter')]
        if len(objs) != 1:
            continue
        p = objs[0]
        touches = any(x.get('kind') == 'MemberExpr' and x.get('name') in ('cursor', 'buffer') and tu.kids(x) and
                      tu.ref_decl(tu.kids(x)[0]) == p['id'] for x in tu.walk(tu.body(f)))
        if not touches:
            continue
        sig = (f['q'], f['fty'], tu.fn_file(f))
        if sig in seen:
            continue
        inst = '%s(%s)' % (short(f['q']), ', '.join(short(bare_type(q_['ct'])) for q_ in f['params']))
        keybase = '%s|%s' % (tu.fn_file(f), inst)
        rec = [r for r in tu.records.values() if r['q'] == re.sub(r'\bconst\s+|&', '', p['ct']).strip()]
        if not rec:
            continue
        c0 = Poly.atom(('field', 'cursor0'))
        cap = Poly.atom(('sym', 'capacity'))
        s0 = St({'cursor': c0}, cap)
        s0.inv = [c0 - cap]
        eng = BufEngine(tu, f, objparam=p['id'], objrec=rec[0])
        try:
            outs = eng.run(s0)
        except Undecided as u:
            if 'not modelled' in str(u) and any(tu.callee_fn(x) is None or tu.cfg(tu.callee_fn(x)) is None
                                                for x in tu.walk(tu.body(f)) if x.get('kind') == 'CXXMemberCallExpr'
                                                and tu.sd(x).get('rec') == rec[0]['q']):
                continue       # the members it calls have no body in this unit: decided in the unit that defines them
            seen.add(sig)
            ctx.undecided(R, inst, str(u), tu.fn_loc(f))
            continue
        seen.add(sig)
        n += 1
        for kind, st, rv in outs:
            label = '%s [path %s]' % (inst, '->'.join('B%d' % b for b in st.trace))
            if kind == 'throw':
                continue
            good = True
            for e in [e for e in st.events if e[0] == 'memcpy']:
                _, dst, src, ln, nid, gen, bsz = e
                for side in (dst, src):
                    if is_ptr(side) and side[1] == 'buf':
                        if not check_access(ctx, tu, f, st, (side, ln, nid, gen, bsz), R, label, keybase, 'copy'):
                            good = False
            for e in [e for e in st.events if e[0] in ('view', 'retptr')]:
                ptr, ln = (e[1], e[2]) if e[0] == 'view' else (e[1], None)
                if ln is not None and not check_access(ctx, tu, f, st, (ptr, ln, e[3], e[4], e[5]), R, label, keybase, 'view'):
                    good = False
            cur = st.fields.get('cursor')
            if isinstance(cur, Poly) and not st.opaque and not st.wrap:
                wit = small_model(list(st.cons) + [(c0 - cap, '<='), (cap - cur + 1, '<=')])
                if wit is not None and good:
                    ctx.violation(R, label, 'on return cursor == %s can exceed the buffer size, e.g. for %s'
                                  % (show(cur), ', '.join('%s = %d' % (atom_name(a), v_) for a, v_ in
                                                          sorted(wit.items(), key=lambda kv: repr(kv[0])))), tu.fn_loc(f),
                                  key='%s|%s|cursor-leaves-buffer' % (R, keybase), path=path_text(tu, tu.cfg(f), st))
                    good = False
            if good:
                ctx.ok(R, label, 'every access through the reader / writer argument stays inside its buffer', tu.fn_loc(f))
    return n


TRANSFER_FNS = [
    (NET + 'BufferReader::read', 'read', 'rkcommon/networking/DataStreaming.cpp'),
    (NET + 'FixedBufferWriter::write', 'write', 'rkcommon/networking/DataStreaming.cpp'),
    (NET + 'FixedBufferWriter::reserve', 'reserve', 'rkcommon/networking/DataStreaming.cpp'),
    (NET + 'BufferWriter::write', 'grow', 'rkcommon/networking/DataStreaming.cpp'),
    (NET + 'WriteSizeCalculator::write', 'count', 'rkcommon/networking/DataStreaming.cpp'),
    (NET + 'BufferReader::getView', 'view', 'drivers/c15_streams.cpp'),
]


def check_buffers(ctx, tus):
    ctx.describe('R-C15-1', 'every copy / view / returned pointer at buffer+off of length len is reached exactly under '
                 'off + len <= capacity; the failing path throws before any effect; the cursor advances by exactly len; '
                 'end/available/capacity/getWrittenView have the normal forms cursor>=size, size-cursor, size, [0,cursor)')
    ctx.describe('R-C15-3', 'no pointer derived from buffer->begin()/data() before a resize is used after it')
    ctx.describe('R-C15-4', 'WriteSizeCalculator::write adds exactly size to writtenSize on every path')
    n1 = n4 = 0
    for q, mode, unit in TRANSFER_FNS:
        tu = tus[unit]
        fs = find_fn(tu, q)
        if not fs:
            ctx.broken('R-C15-1: anchor %s not found in %s' % (q, unit))
            continue
        for f in fs:
            k = check_transfer_fn(ctx, tu, f, mode)
            if mode == 'count':
                n4 += k
            else:
                n1 += k
    n1 += check_accessors(ctx, tus['rkcommon/networking/DataStreaming.cpp'])
    ctx.floor('R-C15-1', n1, 18, 'paths of read/getView/write/reserve/BufferWriter::write + 4 accessors + 2 constructors: 22 on the pinned tree')
    ctx.floor('R-C15-4', n4, 1, 'WriteSizeCalculator::write')
    seen_ext = set()
    for tu in tus.values():
        n1 += check_external_accessors(ctx, tu, seen_ext)
    seen = set()
    nm = 0
    for tu in tus.values():
        nm += check_no_cached_buffer_state(ctx, tu, seen)
    n3 = sum(1 for o in ctx.obl if o['rule'] == 'R-C15-3')
    ctx.floor('R-C15-3', n3 - nm, 1, 'the memcpy after the resize in BufferWriter::write')
    ctx.floor('R-C15-3', nm, 10, 'member functions and constructors of BufferReader / BufferWriter / FixedBufferWriter: 12')


# =====================================================================================================
#  Part 2: wire signatures of the typed stream operators (R-C15-2)
# =====================================================================================================
BUILTIN_SIZE = {'bool': 1, 'char': 1, 'signed char': 1, 'unsigned char': 1, 'short': 2, 'unsigned short': 2, 'int': 4,
                'unsigned int': 4, 'long': 8, 'unsigned long': 8, 'long long': 8, 'unsigned long long': 8, 'float': 4,
                'double': 8, 'long double': 16, 'wchar_t': 4, 'char16_t': 2, 'char32_t': 4}


def bare_type(ct):
    t = ct.strip()
    if t.endswith('&'):
        t = t[:-1].strip()
    t = re.sub(r'\s*\bconst$', '', t).strip()       # top-level const of `T const` / `T *const`
    if not t.endswith('*'):
        t = re.sub(r'^const\s+', '', t)
    return t.strip()


def type_size(tu, ct):
    t = bare_type(ct)
    if t in BUILTIN_SIZE:
        return BUILTIN_SIZE[t]
    if t.endswith('*'):
        return 8
    r = tu.records_by_type.get(t)
    if r is not None:
        return r.get('size')
    return None


def pointee(ct):
    t = bare_type(ct)
    if t.endswith('*'):
        return bare_type(t[:-1])
    return None


def show_path(p):
    if p[0] == 'rh':
        return 'value'
    if p[0] == 'cstr':
        return '%s.c_str()' % show_path(p[1])
    if p[0] == 'elem':
        return '%s[i]' % show_path(p[1])
    if p[0] == 'local':
        return p[2]
    return str(p)


def subst_path(p, root):
    if p[0] == 'rh':
        return root
    if p[0] == 'cstr':
        return ('cstr', subst_path(p[1], root))
    if p[0] == 'elem':
        return ('elem', subst_path(p[1], root))
    return p


def subst_poly(poly, root):
    out = poly
    for a in list(poly.atoms()):
        if isinstance(a, tuple) and a[0] == 'size':
            out = out.subst(a, Poly.atom(('size', subst_path(a[1], root))))
    return out


def subst_items(items, root):
    out = []
    for it in items:
        k = it[0]
        if k == 'RAW':
            out.append(('RAW', subst_path(it[1], root), it[2], it[3], it[4]))
        elif k == 'FIELD':
            out.append(('FIELD', it[1], subst_poly(it[2], root) if it[2] is not None else None, it[3], it[4], it[5]))
        elif k == 'DATA':
            out.append(('DATA', subst_path(it[1], root), subst_poly(it[2], root), it[3], it[4]))
        elif k == 'RESIZE':
            out.append(('RESIZE', subst_path(it[1], root), subst_poly(it[2], root), it[3]))
        elif k == 'APPEND':
            out.append(('APPEND', subst_path(it[1], root), subst_poly(it[2], root), it[3]))
        elif k == 'THROW':
            out.append(it)
        elif k == 'REPEAT':
            out.append(('REPEAT', subst_poly(it[1], root), subst_path(it[2], root), subst_items(it[3], root), it[4]))
        elif k == 'COUNT':
            out.append(('COUNT', subst_poly(it[1], root), it[2]))
        elif k == 'IF':
            out.append(('IF', [(subst_poly(p_, root), op) for p_, op in it[1]], subst_items(it[2], root), subst_items(it[3], root), it[4]))
    return out


def show_items(items):
    out = []
    for it in items:
        k = it[0]
        if k == 'RAW':
            out.append('RAW(%s:%s,%d)' % (show_path(it[1]), it[3], it[2]))
        elif k == 'FIELD':
            out.append('FIELD(%d,%s)' % (it[1], show(it[2]) if it[2] is not None else '->' + it[4]))
        elif k == 'DATA':
            out.append('DATA(%s,%s)' % (show_path(it[1]), show(it[2])))
        elif k == 'RESIZE':
            out.append('RESIZE(%s,%s)' % (show_path(it[1]), show(it[2])))
        elif k == 'APPEND':
            out.append('APPEND(%s,%s)' % (show_path(it[1]), show(it[2])))
        elif k == 'GROW':
            out.append('GROW(%s,%s)' % (show_path(it[1]), it[2]))
        elif k == 'THROW':
            out.append('THROW')
        elif k == 'REPEAT':
            out.append('REPEAT(%s,[%s])' % (show(it[1]), ' '.join(show_items(it[3]))))
        elif k == 'COUNT':
            out.append('COUNT(%s)' % show(it[1]))
        elif k == 'IF':
            out.append('IF(%s,[%s],[%s])' % (' && '.join(show_rel(c) for c in it[1]), ' '.join(show_items(it[2])), ' '.join(show_items(it[3]))))
    return out


class SigBuilder:
    """items of one operator<< / operator>> body, in terms of its value parameter ('rh',)"""

    def __init__(self, tu):
        self.tu = tu
        self.memo = {}
        self.raw_types = {}     # type name -> (width, loc) of every raw object image
        self.other = None       # SigBuilder over the other parsed unit (definitions of operators that are not inline)
        self.proxies = {}
        self.stream_queries = set()

    def is_stream_op(self, n):
        return n.get('kind') == 'CXXOperatorCallExpr' and self.tu.sd(n).get('q') in (NET + 'operator<<', NET + 'operator>>')

    def resolve(self, call):
        """function entry of the operator / helper a call selects.  A function that is only declared in this unit and defined
        in the other parsed unit of the property (an operator that is not inline) gets an entry of its own here -- identity,
        parameters and location of the declaration -- whose signature is computed from the definition over there"""
        tu = self.tu
        f = tu.callee_fn(call)
        if f is not None or getattr(self, 'other', None) is None:
            return f
        sd = tu.sd(call)
        d, q, fty = sd.get('def') or sd.get('d'), sd.get('q'), sd.get('fty')
        if not d or not q or not fty:
            return None
        if d in self.proxies:
            return self.proxies[d]
        defs = [g for g in self.other.tu.functions.values() if g['q'] == q and g.get('fty') == fty and not g.get('dep')
                and g.get('body') and self.other.tu.body(g) is not None and not g.get('rec')]
        decl = tu.node(d)
        if len(defs) != 1 or decl is None:
            return None
        parms = [c for c in decl.get('inner', ()) if isinstance(c, dict) and c.get('kind') == 'ParmVarDecl']
        if len(parms) != len(defs[0].get('params', [])):
            return None
        dsd = tu.sd(d) if tu.sd(d) and 'f' in tu.sd(d) else sd
        if dsd is sd and isinstance(decl.get('loc', {}).get('line'), int):
            # the declaration sits next to the other overloads of the same name: their file, the declaration's own line
            from collections import Counter
            fs_ = Counter(g['f'] for g in tu.functions.values() if g['q'] == q and not g.get('rec'))
            if fs_:
                dsd = {'f': fs_.most_common(1)[0][0], 'l': decl['loc']['line']}
        self.proxies[d] = {'id': d, 'q': q, 'fty': fty, 'f': dsd['f'], 'l': dsd['l'], 'dep': False, 'body': None,
                           'foreign': defs[0],
                           'params': [{'id': c['id'], 'name': c.get('name', ''), 'ct': p2['ct']}
                                      for c, p2 in zip(parms, defs[0]['params'])]}
        return self.proxies[d]

    def sig(self, f):
        if f['id'] in self.memo:
            r = self.memo[f['id']]
            if r is None:
                raise Undecided('recursive stream operator')
            return r
        if f.get('foreign') is not None:
            r = self.other.sig(f['foreign'])
            self.memo[f['id']] = r
            return r
        self.memo[f['id']] = None
        tu = self.tu
        ps = f.get('params', [])
        if len(ps) != 2:
            raise Undecided('stream operator with %d parameters' % len(ps))
        st_t = bare_type(ps[0]['ct'])
        if st_t in (NET + 'WriteStream', NET + 'WriteSizeCalculator', NET + 'BufferWriter', NET + 'FixedBufferWriter'):
            direction = 'w'
        elif st_t == NET + 'ReadStream':
            direction = 'r'
        else:
            raise Undecided('first parameter is `%s`, not a stream' % ps[0]['ct'])
        env = {'stream': ps[0]['id'], 'rh': ps[1]['id'], 'rh_ct': ps[1]['ct'], 'dir': direction, 'vars': {}, 'elems': {},
               'ptype': {('rh',): ps[1]['ct']}, 'fn': f}
        body = tu.body(f)
        try:
            items = self.block(body, env)
        except Undecided:
            del self.memo[f['id']]      # not recursion: the next user gets the real reason again
            raise
        self.memo[f['id']] = (direction, items)
        return direction, items

    # ---- expressions
    def path_of(self, e, env):
        tu = self.tu
        e = tu.strip(e, casts=True)
        if e is None:
            return None
        k = e.get('kind')
        if k == 'DeclRefExpr':
            did = e.get('referencedDecl', {}).get('id')
            if did == env['rh']:
                return ('rh',)
            if did in env['elems']:
                return env['elems'][did]
            if did in env['vars'] or did in env.get('locals', {}):
                p = ('local', did, e.get('referencedDecl', {}).get('name', '?'))
                env['ptype'][p] = tu.sd(e).get('ct', '')
                return p
            return None
        if k == 'CXXOperatorCallExpr':
            sd, obj, args = tu.call_parts(e)
            nm = sd.get('q', '').split('::')[-1]
            if nm == 'operator[]' and obj is not None and len(args) == 1:
                base = self.path_of(obj, env)
                ix = tu.strip(args[0])
                if base is not None and ix is not None and ix.get('kind') == 'DeclRefExpr':
                    did = ix.get('referencedDecl', {}).get('id')
                    if env.get('index') and env['index'][0] == did and env['index'][1] == base:
                        p = ('elem', base)
                        env['ptype'][p] = tu.sd(e).get('ct', '')
                        return p
            if nm == 'operator*' and obj is not None:
                o = tu.strip(obj)
                if o is not None and o.get('kind') == 'DeclRefExpr' and \
                        o.get('referencedDecl', {}).get('id') in env.get('iters', {}):
                    p = env['iters'][o['referencedDecl']['id']]
                    env['ptype'][p] = tu.sd(e).get('ct', '') or env['ptype'].get(p, '')
                    return p
        if k == 'UnaryOperator' and e.get('opcode') == '*' and tu.kids(e):
            o = tu.strip(tu.kids(e)[0], casts=True)
            if o is not None and o.get('kind') == 'DeclRefExpr' and o.get('referencedDecl', {}).get('id') in env.get('iters', {}):
                p = env['iters'][o['referencedDecl']['id']]
                env['ptype'][p] = tu.sd(e).get('ct', '') or env['ptype'].get(p, '')
                return p
        if k == 'CXXMemberCallExpr':
            sd, obj, args = tu.call_parts(e)
            nm = sd.get('q', '').split('::')[-1]
            if nm == 'at' and obj is not None and len(args) == 1:
                base = self.path_of(obj, env)
                ix = tu.strip(args[0])
                if base is not None and ix is not None and ix.get('kind') == 'DeclRefExpr' and env.get('index') and \
                        env['index'][0] == ix.get('referencedDecl', {}).get('id') and env['index'][1] == base:
                    p = ('elem', base)
                    env['ptype'][p] = tu.sd(e).get('ct', '')
                    return p
        return None

    def iter_pos(self, e, env):
        """(container path, 'begin' | 'end') if e is the begin / end iterator of a streamed container (or a copy of a
        parameter bound to one), else None"""
        tu = self.tu
        x = tu.strip(e, casts=True)
        hops = 0
        while x is not None and hops < 4 and x.get('kind') in ('CXXConstructExpr', 'MaterializeTemporaryExpr',
                                                                'CXXBindTemporaryExpr') and len(tu.kids(x)) == 1:
            x = tu.strip(tu.kids(x)[0], casts=True)
            hops += 1
        if x is None:
            return None
        if x.get('kind') == 'DeclRefExpr':
            return env.get('iterpos', {}).get(x.get('referencedDecl', {}).get('id'))
        if x.get('kind') == 'CXXMemberCallExpr':
            sd, obj, args = tu.call_parts(x)
            nm = sd.get('q', '').split('::')[-1]
            if nm in ('begin', 'cbegin', 'end', 'cend') and not args and obj is not None and \
                    re.match(r'std::(vector|basic_string|array|deque|list)\b', sd.get('q', '')):
                base = self.path_of(obj, env)
                if base is not None:
                    return (base, 'begin' if nm in ('begin', 'cbegin') else 'end')
        return None

    def iter_loop(self, n, env):
        """(iterator decl id, container path) if the for statement n walks a whole streamed container with an iterator:
        `for ([It it = first]; it != last; ++it)` where first / last are the begin / end of the same container and the body
        does not touch the iterators otherwise; None if the loop has another form"""
        tu = self.tu
        init, condvar, cond, inc, body = n.get('inner', [])
        ipos = dict(env.get('iterpos', {}))
        if isinstance(init, dict) and init.get('kind'):
            if not (init.get('kind') == 'DeclStmt' and len(tu.kids(init)) == 1 and tu.kids(tu.kids(init)[0])):
                return None
            iv = tu.kids(init)[0]
            pos = self.iter_pos(tu.kids(iv)[0], env)
            if pos is None:
                return None
            ipos[iv['id']] = pos
        if not (isinstance(cond, dict) and cond.get('kind')) or (isinstance(condvar, dict) and condvar.get('kind')):
            return None
        c = tu.strip(cond, casts=True)
        if c is None:
            return None
        if c.get('kind') == 'CXXOperatorCallExpr' and tu.sd(c).get('q', '').split('::')[-1] == 'operator!=':
            ops = tu.kids(c)[1:]
        elif c.get('kind') == 'BinaryOperator' and c.get('opcode') == '!=':
            ops = tu.kids(c)
        else:
            return None
        if len(ops) != 2:
            return None
        ids = []
        for o in ops:
            o = tu.strip(o, casts=True)
            if o is None or o.get('kind') != 'DeclRefExpr':
                return None
            ids.append(o.get('referencedDecl', {}).get('id'))
        if ids[0] not in ipos or ids[1] not in ipos:
            return None
        if ipos[ids[1]][1] == 'begin' and ipos[ids[0]][1] == 'end':
            ids.reverse()
        (b0, k0), (b1, k1) = ipos[ids[0]], ipos[ids[1]]
        if (k0, k1) != ('begin', 'end'):
            raise Undecided('iterator loop does not run from begin() to end()')
        if b0 != b1:
            raise Undecided('iterator loop compares iterators of `%s` and `%s`' % (show_path(b0), show_path(b1)))
        it = ids[0]
        i = tu.strip(inc) if isinstance(inc, dict) and inc.get('kind') else None
        okinc = False
        if i is not None and i.get('kind') == 'CXXOperatorCallExpr' and tu.sd(i).get('q', '').split('::')[-1] == 'operator++':
            okinc = tu.ref_decl(tu.kids(i)[1]) == it
        elif i is not None and i.get('kind') == 'UnaryOperator' and i.get('opcode') == '++':
            okinc = tu.ref_decl(tu.kids(i)[0]) == it
        if not okinc:
            raise Undecided('iterator loop does not advance its iterator by one')
        # inside the body the iterators may only be dereferenced
        for x in tu.walk(body):
            if x.get('kind') == 'DeclRefExpr' and x.get('referencedDecl', {}).get('id') in (ids[0], ids[1]):
                par = tu.par(x)
                hops = 0
                while par is not None and hops < 4 and par.get('kind') in ('ImplicitCastExpr', 'ParenExpr'):
                    par = tu.par(par)
                    hops += 1
                deref = par is not None and x.get('referencedDecl', {}).get('id') == it and (
                    (par.get('kind') == 'CXXOperatorCallExpr' and tu.sd(par).get('q', '').split('::')[-1] in ('operator*', 'operator->')) or
                    (par.get('kind') == 'UnaryOperator' and par.get('opcode') == '*'))
                if not deref:
                    raise Undecided('iterator `%s` is used other than by dereference inside its loop' % x.get('referencedDecl', {}).get('name'))
        return it, b0

    def helper_callee(self, n, env):
        """function entry if n calls a helper (detail:: / file-local function of the networking namespace with a body)
        that receives the stream"""
        tu = self.tu
        if n.get('kind') != 'CallExpr':
            return None
        callee = tu.callee_fn(n)
        if callee is None or tu.body(callee) is None or not callee['q'].startswith(NET) or callee.get('rec'):
            return None
        if not any(self.is_stream(a, env) for a in tu.call_parts(n)[2]):
            return None
        return callee

    def inline_helper(self, n, env, callee):
        """(items, returned value Poly | 'stream' | None) of a helper call, parameters mapped to the arguments"""
        tu = self.tu
        if env.get('depth', 0) > 4:
            raise Undecided('helper nesting too deep')
        args = tu.call_parts(n)[2]
        env2 = {'stream': None, 'rh': None, 'rh_ct': '', 'dir': env['dir'], 'vars': {}, 'elems': {}, 'ptype': env['ptype'],
                'fn': callee, 'helper': True, 'retval': None, 'depth': env.get('depth', 0) + 1, 'locals': {},
                'iterpos': {}, 'ptrs': {}}
        env2['rh_ct'] = env.get('rh_ct', '')          # the path ('rh',) means the same object in the helper
        pre = []
        for p, a in zip(callee.get('params', []), args):
            if self.is_stream(a, env):
                env2['stream'] = p['id']
                continue
            pos = self.iter_pos(a, env)
            if pos is not None:
                env2['iterpos'][p['id']] = pos
                continue
            path = self.path_of(a, env)
            if path is not None and not (path[0] == 'local' and isinstance(env['vars'].get(path[1]), Poly)):
                env2['elems'][p['id']] = path
                continue
            v = self.length(a, env, pre)
            if v is None:
                pv = self.ptr_of(a, env)
                if pv is not None and pv[0] == 'data':
                    env2['ptrs'][p['id']] = pv          # a pointer to the elements of (part of) the streamed value
                    continue
                raise Undecided('argument `%s` of helper %s has no normal form' % (tu.show(a), callee['q']))
            env2['vars'][p['id']] = v
        items = pre + self.block(tu.body(callee), env2)
        return items, env2['retval']

    def cond_rel(self, e, env):
        """normal form [(Poly, op)] of a branch condition over the lengths known so far"""
        tu = self.tu

        def var(n, did):
            v = env['vars'].get(did)
            return v if isinstance(v, Poly) else None

        def call(n):
            return self.length(n, env)

        x = tu.strip(e)
        if x is not None and x.get('kind') == 'BinaryOperator' and x.get('opcode') in ('<', '>', '<=', '>='):
            l_, r_ = (tu.strip(y) for y in tu.kids(x))
            for a_, q_, flip in ((l_, r_, False), (r_, l_, True)):
                if q_ is not None and q_.get('kind') == 'BinaryOperator' and q_.get('opcode') == '/':
                    num, den = tu.kids(q_)
                    kv = self.length(den, env)
                    av, nv = self.length(a_, env), self.length(num, env)
                    if kv is None or kv.const_value() is None or kv.const_value() < 1 or av is None or nv is None:
                        return None
                    op = x['opcode'] if not flip else {'<': '>', '>': '<', '<=': '>=', '>=': '<='}[x['opcode']]
                    # a > floor(n / k)  <=>  a*k > n ;  a <= floor(n / k)  <=>  a*k <= n   (k >= 1, integers)
                    if op in ('>', '<='):
                        return [relation(av * kv.const_value(), op, nv)]
                    return None
        return Evaluator(tu, var, None, call).rel(e)

    def length(self, e, env, sink=None):
        tu = self.tu

        def var(n, did):
            v = env['vars'].get(did)
            return v if isinstance(v, Poly) else None

        def call(n):
            sd, obj, args = tu.call_parts(n)
            q = sd.get('q', '')
            nm = q.split('::')[-1]
            if n.get('kind') == 'CXXMemberCallExpr' and nm in ('size', 'length') and not args and obj is not None:
                p = self.path_of(obj, env)
                if p is not None:
                    return Poly.atom(('size', p))
            if n.get('kind') == 'CXXMemberCallExpr' and not args and obj is not None and self.is_stream(obj, env) and \
                    nm not in ('flush',) and tu.sd(n).get('ct', '') in ('unsigned long', 'unsigned long long'):
                self.stream_queries.add(nm)
                return Poly.atom(('streamq', nm))
            if n.get('kind') == 'CallExpr' and q in ('std::min', 'std::max') and len(args) == 2:
                a_, b_ = self.length(args[0], env), self.length(args[1], env)
                if a_ is not None and b_ is not None:
                    ka, kb = sorted((show(a_), show(b_)))
                    return Poly.atom((q.split('::')[-1], ka, kb))
            if n.get('kind') == 'CallExpr' and q in ('strlen', 'std::strlen') and len(args) == 1:
                p = self.path_of(args[0], env)
                if p is not None and pointee(env['ptype'].get(p, '')) == 'char':
                    return Poly.atom(('size', p))
            callee = self.helper_callee(n, env)
            if callee is not None:
                if sink is None:
                    raise Undecided('helper call `%s` in a position where its stream effects cannot be ordered' % tu.show(n))
                items, rv = self.inline_helper(n, env, callee)
                sink.extend(items)
                return rv if isinstance(rv, Poly) else None
            return None

        return Evaluator(tu, var, None, call).ev(e)

    def ptr_of(self, e, env):
        """('addr', path, ct) | ('data', path, elem type) | None"""
        tu = self.tu
        e = tu.strip(e, casts=True)
        if e is None:
            return None
        k = e.get('kind')
        if k == 'UnaryOperator' and e.get('opcode') == '&':
            x = tu.strip(tu.kids(e)[0], casts=True)
            p = self.path_of(x, env)
            if p is not None:
                return ('addr', p, tu.sd(x).get('ct', '') or env['ptype'].get(p, ''))
            # &c[0] / &c.front()
            if x is not None and x.get('kind') in ('CXXOperatorCallExpr', 'CXXMemberCallExpr'):
                sd, obj, args = tu.call_parts(x)
                nm = sd.get('q', '').split('::')[-1]
                zero = len(args) == 1 and tu.sd(tu.strip(args[0])).get('cv') == '0'
                if obj is not None and ((nm == 'operator[]' and zero) or (nm == 'front' and not args)):
                    p = self.path_of(obj, env)
                    if p is not None:
                        return ('data', p, bare_type(tu.sd(x).get('ct', '')))
            return None
        if k == 'CXXMemberCallExpr':
            sd, obj, args = tu.call_parts(e)
            nm = sd.get('q', '').split('::')[-1]
            if nm in ('data', 'c_str', 'begin', 'cbegin') and not args and obj is not None:
                p = self.path_of(obj, env)
                pt = pointee(tu.sd(e).get('ct', ''))
                if p is not None and pt is not None:
                    return ('data', p, pt)
            return None
        if k == 'DeclRefExpr':
            if e.get('referencedDecl', {}).get('id') in env.get('ptrs', {}):
                return env['ptrs'][e['referencedDecl']['id']]
            p = self.path_of(e, env)
            if p is not None and p[0] == 'cstr':
                return ('data', p[1], 'char')        # the characters of the string itself
            if p is not None:
                pt = pointee(env['ptype'].get(p, '') if p != ('rh',) else env['rh_ct'])
                if pt is not None:
                    return ('data', p, pt)
        return None

    # ---- statements
    def block(self, n, env):
        tu = self.tu
        items = []
        k = n.get('kind')
        if k == 'CompoundStmt':
            for s in tu.kids(n):
                items += self.block(s, env)
            return items
        if k in ('NullStmt',):
            return items
        if n.get('id') in env.get('skip_stmt', ()) or (k in ('ExprWithCleanups',) and tu.strip(n) is not None and
                                                      tu.strip(n).get('id') in env.get('skip_stmt', ())):
            return items
        if k == 'DeclStmt':
            for vd in n.get('inner', ()):
                if isinstance(vd, dict) and vd.get('id') in env.get('skip_decl', ()):
                    continue
                if not isinstance(vd, dict) or vd.get('kind') != 'VarDecl':
                    raise Undecided('declaration `%s` in a stream operator' % vd.get('kind'))
                init = tu.kids(vd)
                env.setdefault('locals', {})[vd['id']] = vd.get('name')
                if init and vd.get('type', {}).get('qualType', '').rstrip().endswith('*'):
                    # a local pointer to the characters of a streamed string: const char *p = s.c_str();
                    x0 = tu.strip(init[0], casts=True)
                    if x0 is not None and x0.get('kind') == 'CXXMemberCallExpr':
                        sd_, obj_, args_ = tu.call_parts(x0)
                        if sd_.get('q', '').split('::')[-1] in ('c_str', 'data') and not args_ and obj_ is not None and \
                                sd_.get('q', '').startswith('std::basic_string'):
                            base = self.path_of(obj_, env)
                            if base is not None:
                                env['elems'] = dict(env['elems'])
                                env['elems'][vd['id']] = ('cstr', base)
                                env['ptype'][('cstr', base)] = 'const char *'
                                continue
                if init:
                    v = self.length(init[0], env, items)
                    if v is None:
                        raise Undecided('initialiser of `%s` has no normal form' % vd.get('name'))
                    env['vars'][vd['id']] = v
                else:
                    env['vars'][vd['id']] = 'uninit'
            return items
        if k == 'ReturnStmt':
            ks = tu.kids(n)
            e = tu.strip(ks[0]) if ks else None
            if e is not None and self.is_stream_op(e):
                items += self.expr(e, env)
                env['retval'] = 'stream'
                return items
            if e is not None and e.get('kind') == 'CallExpr' and self.helper_callee(e, env) is not None:
                sub, rv = self.inline_helper(e, env, self.helper_callee(e, env))
                items += sub
                if rv != 'stream' and not env.get('helper'):
                    raise Undecided('operator does not return its stream argument')
                env['retval'] = rv
                return items
            if e is not None and e.get('kind') == 'DeclRefExpr' and e.get('referencedDecl', {}).get('id') == env['stream']:
                env['retval'] = 'stream'
                return items
            if env.get('helper') and e is not None:
                v = self.length(ks[0], env, items)
                if v is None:
                    raise Undecided('value returned by helper %s has no normal form' % env['fn']['q'])
                env['retval'] = v
                return items
            raise Undecided('operator does not return its stream argument')
        if k == 'CXXForRangeStmt':
            inner = n.get('inner', [])
            decls = [x for x in inner if isinstance(x, dict) and x.get('kind') == 'DeclStmt']
            if len(decls) < 4:
                raise Undecided('range-for statement shape')
            rng = decls[0]['inner'][0]
            loopvar = decls[-1]['inner'][0]
            rinit = tu.kids(rng)
            base = self.path_of(rinit[0], env) if rinit else None
            if base is None:
                raise Undecided('range-for over something that is not the value being streamed')
            p = ('elem', base)
            env2 = dict(env)
            env2['elems'] = dict(env['elems'])
            env2['elems'][loopvar['id']] = p
            env['ptype'][p] = loopvar.get('type', {}).get('qualType', '')
            lv_ct = tu.sd(tu.kids(loopvar)[0]).get('ct') if tu.kids(loopvar) else None
            if lv_ct:
                env['ptype'][p] = lv_ct
            body = [x for x in inner if isinstance(x, dict) and x.get('kind')][-1]
            sub = self.block(body, env2)
            return [('REPEAT', Poly.atom(('size', base)), base, sub, tu.loc(n))]
        if k == 'ForStmt':
            inner = n.get('inner', [])
            if len(inner) != 5:
                raise Undecided('for statement shape')
            init, condvar, cond, inc, body = inner
            il = self.iter_loop(n, env)
            if il is not None:
                it, base = il
                p_el = ('elem', base)
                env2 = dict(env)
                env2['iters'] = dict(env.get('iters', {}))
                env2['iters'][it] = p_el
                sub = self.block(body, env2)
                return [('REPEAT', Poly.atom(('size', base)), base, sub, tu.loc(n))]
            if not (isinstance(init, dict) and init.get('kind') == 'DeclStmt' and len(tu.kids(init)) == 1):
                raise Undecided('for-loop initialisation is not a single declaration')
            iv = tu.kids(init)[0]
            ivinit = tu.kids(iv)
            start = self.length(ivinit[0], env) if ivinit else None
            if start != Poly.const(0):
                raise Undecided('for-loop does not start at 0')
            ivatom = ('ivar', iv['id'])
            env2 = dict(env)
            env2['vars'] = dict(env['vars'])
            env2['vars'][iv['id']] = Poly.atom(ivatom)
            rel = None
            if isinstance(cond, dict) and cond.get('kind'):
                ev = Evaluator(tu, lambda nn, did: env2['vars'].get(did) if isinstance(env2['vars'].get(did), Poly) else None,
                               None, lambda nn: self.length(nn, env2))
                rel = ev.rel(cond)
            if not rel or len(rel) != 1:
                raise Undecided('for-loop condition has no normal form')
            p, op = rel[0]
            co = p.coeff(ivatom)
            count = None
            if co is not None and co[0] == Poly.const(1) and op == '<=':
                count = -(co[1]) + 1          # i + rest <= 0  ->  i in [0, -rest]  -> count = -rest + 1
            elif co is not None and op == '!=' and co[0] in (Poly.const(1), Poly.const(-1)):
                count = -co[1] if co[0] == Poly.const(1) else co[1]
            if count is None:
                raise Undecided('for-loop bound `%s` is not `i < n`' % show_rel(rel[0]))
            incn = tu.strip(inc) if isinstance(inc, dict) and inc.get('kind') else None
            okinc = False
            if incn is not None and incn.get('kind') == 'UnaryOperator' and incn.get('opcode') == '++':
                t = tu.strip(tu.kids(incn)[0])
                okinc = t.get('kind') == 'DeclRefExpr' and t.get('referencedDecl', {}).get('id') == iv['id']
            elif incn is not None and incn.get('kind') == 'CompoundAssignOperator' and incn.get('opcode') == '+=':
                t = tu.strip(tu.kids(incn)[0])
                okinc = t.get('kind') == 'DeclRefExpr' and t.get('referencedDecl', {}).get('id') == iv['id'] and \
                    tu.sd(tu.strip(tu.kids(incn)[1])).get('cv') == '1'
            if not okinc:
                raise Undecided('for-loop step is not +1')
            # the container indexed by the loop: determined by the first use; all uses must agree
            conts = set()
            for x in tu.walk(body):
                if x.get('kind') in ('CXXOperatorCallExpr', 'CXXMemberCallExpr'):
                    sd, obj, args = tu.call_parts(x)
                    if sd.get('q', '').split('::')[-1] in ('operator[]', 'at') and obj is not None and len(args) == 1:
                        ix = tu.strip(args[0])
                        if ix is not None and ix.get('kind') == 'DeclRefExpr' and \
                                ix.get('referencedDecl', {}).get('id') == iv['id']:
                            bp = self.path_of(obj, env)
                            if bp is not None:
                                conts.add(bp)
            if not conts:
                # element-at-a-time form: { T x; buf >> x; c.push_back(x); }
                pushes = []
                for x in tu.walk(body):
                    if x.get('kind') == 'CXXMemberCallExpr' and tu.sd(x).get('q', '').split('::')[-1] in ('push_back', 'emplace_back'):
                        sd, obj, args = tu.call_parts(x)
                        bp = self.path_of(obj, env) if obj is not None else None
                        a = tu.strip(args[0], casts=True) if len(args) == 1 else None
                        hops = 0
                        while a is not None and hops < 4:
                            hops += 1
                            if a.get('kind') == 'CallExpr' and tu.sd(a).get('q') in ('std::move', 'std::forward') and tu.call_parts(a)[2]:
                                a = tu.strip(tu.call_parts(a)[2][0], casts=True)
                                continue
                            if a.get('kind') == 'CXXConstructExpr' and len(tu.kids(a)) == 1:
                                a = tu.strip(tu.kids(a)[0], casts=True)
                                continue
                            break
                        did = a.get('referencedDecl', {}).get('id') if a is not None and a.get('kind') == 'DeclRefExpr' else None
                        vd = tu.node(did) if did else None
                        if bp is not None and vd is not None and vd.get('kind') == 'VarDecl' and \
                                any(y.get('id') == did for y in tu.walk(body)):
                            pushes.append((x, bp, did))
                if len(pushes) == 1:
                    px, base, did = pushes[0]
                    p_el = ('elem', base)
                    env2['elems'] = dict(env['elems'])
                    env2['elems'][did] = p_el
                    env2['skip_decl'] = set(env.get('skip_decl', ())) | {did}
                    env2['skip_stmt'] = set(env.get('skip_stmt', ())) | {px['id']}
                    env['ptype'][p_el] = tu.node(did).get('type', {}).get('qualType', '')
                    sub = self.block(body, env2)
                    return [('APPEND', base, count, tu.loc(px)), ('REPEAT', count, base, sub, tu.loc(n))]
            if len(conts) != 1:
                raise Undecided('for-loop body does not index exactly one streamed container with the loop variable')
            base = conts.pop()
            env2['index'] = (iv['id'], base)
            sub = self.block(body, env2)
            return [('REPEAT', count, base, sub, tu.loc(n))]
        if k == 'IfStmt':
            ks = [c for c in n.get('inner', ()) if isinstance(c, dict) and c.get('kind')]
            if len(ks) not in (2, 3) or n.get('hasInit') or n.get('hasVar'):
                raise Undecided('if statement shape')
            rel = self.cond_rel(ks[0], env)
            if rel is None or len(rel) != 1:
                raise Undecided('condition `%s` has no normal form' % tu.show(ks[0]))
            venv = dict(env['vars'])
            then_items = self.block(ks[1], env)
            else_items = self.block(ks[2], env) if len(ks) == 3 else []
            if any(it[0] == 'FIELD' and it[3] is not None for it in then_items + else_items):
                raise Undecided('a length is read inside a conditional branch')
            return [('IF', rel, then_items, else_items, tu.loc(n))]
        if k == 'CallExpr' and self.helper_callee(n, env) is not None:
            return self.inline_helper(n, env, self.helper_callee(n, env))[0]
        if k == 'ExprWithCleanups' and tu.strip(n) is not None and tu.strip(n).get('kind') == 'CallExpr' and \
                self.helper_callee(tu.strip(n), env) is not None:
            return self.inline_helper(tu.strip(n), env, self.helper_callee(tu.strip(n), env))[0]
        if k == 'ExprWithCleanups' and tu.strip(n) is not None and tu.strip(n).get('kind') == 'CXXThrowExpr':
            return [('THROW', tu.loc(n))]
        if k in ('CXXOperatorCallExpr', 'CXXMemberCallExpr', 'ExprWithCleanups'):
            return self.expr(tu.strip(n), env)
        if k in ('CompoundAssignOperator', 'BinaryOperator'):
            # direct bookkeeping on the byte counter of a WriteSizeCalculator: buf.writtenSize += n
            l, r = tu.kids(n)
            ls = tu.strip(l)
            if ls is not None and ls.get('kind') == 'MemberExpr' and ls.get('name') == 'writtenSize' and tu.kids(ls) and \
                    self.is_stream(tu.strip(tu.kids(ls)[0], casts=True), env):
                v = self.length(r, env)
                if v is None:
                    raise Undecided('`%s`: amount has no normal form' % tu.show(n))
                if n.get('opcode') == '+=':
                    return [('COUNT', v, tu.loc(n))]
                raise Undecided('`%s` overwrites the byte counter' % tu.show(n))
        if k == 'CXXThrowExpr' or (k == 'ExprWithCleanups' and tu.strip(n) is not None and tu.strip(n).get('kind') == 'CXXThrowExpr'):
            return [('THROW', tu.loc(n))]
        raise Undecided('statement `%s` in a stream operator is not modelled' % k)

    def is_stream(self, e, env):
        e = self.tu.strip(e, casts=True)
        return e is not None and e.get('kind') == 'DeclRefExpr' and e.get('referencedDecl', {}).get('id') == env['stream']

    def expr(self, n, env):
        """items of one expression statement (a chain of stream operations)"""
        tu = self.tu
        items = []
        if self.is_stream_op(n):
            ks = tu.kids(n)[1:]
            if len(ks) != 2:
                raise Undecided('stream operator call shape')
            lhs = tu.strip(ks[0])
            if self.is_stream_op(lhs) or lhs.get('kind') == 'CXXMemberCallExpr':
                items += self.expr(lhs, env)
            elif not self.is_stream(lhs, env):
                raise Undecided('stream operator applied to something that is not the stream parameter')
            callee = self.resolve(n)
            if callee is None or (tu.body(callee) is None and callee.get('foreign') is None):
                raise Undecided('no body for the selected operator `%s`' % tu.sd(n).get('fty'))
            d2, sub = self.sig(callee)
            if d2 != env['dir']:
                raise Undecided('mixed stream directions')
            opnd = tu.strip(ks[1], casts=True)
            p = self.path_of(opnd, env)
            if p is None and opnd is not None and opnd.get('kind') == 'CXXMemberCallExpr':
                sd_, obj_, args_ = tu.call_parts(opnd)
                if sd_.get('q', '').split('::')[-1] in ('c_str', 'data') and not args_ and obj_ is not None and \
                        sd_.get('q', '').startswith('std::basic_string') and \
                        bare_type(callee['params'][1]['ct']) in ('const char *', 'char *'):
                    base = self.path_of(obj_, env)
                    if base is not None:
                        p = ('cstr', base)
                        env['ptype'][p] = 'const char *'
            if p is None:
                if opnd is not None and opnd.get('kind') == 'StringLiteral':
                    p = ('lit', opnd.get('value', ''))
                else:
                    # an rvalue integer expression (buf << rh.size())
                    v = self.length(ks[1], env)
                    if v is None:
                        raise Undecided('operand `%s` is not (part of) the streamed value' % tu.show(ks[1]))
                    w = type_size(tu, tu.sd(tu.strip(ks[1])).get('ct', ''))
                    if len(sub) == 1 and sub[0][0] == 'RAW' and sub[0][1] == ('rh',):
                        return items + [('FIELD', sub[0][2], v, None, tu.show(ks[1]), tu.loc(n))]
                    raise Undecided('operand `%s` of an operator that is not a raw image' % tu.show(ks[1]))
            for it in subst_items(sub, p):
                if it[0] == 'RAW' and it[1][0] == 'local':
                    did = it[1][1]
                    if env['dir'] == 'w':
                        v = env['vars'].get(did)
                        if not isinstance(v, Poly):
                            raise Undecided('local `%s` is written before it has a value' % it[1][2])
                        items.append(('FIELD', it[2], v, None, it[1][2], tu.loc(n)))
                    else:
                        env['vars'][did] = Poly.atom(('rvar', did, it[1][2]))
                        items.append(('FIELD', it[2], None, ('rvar', did, it[1][2]), it[1][2], tu.loc(n)))
                else:
                    items.append(it)
            return items
        if n.get('kind') == 'CXXMemberCallExpr':
            sd, obj, args = tu.call_parts(n)
            q = sd.get('q', '')
            nm = q.split('::')[-1]
            if q in (NET + 'WriteStream::write', NET + 'ReadStream::read') and obj is not None and len(args) == 2:
                if not self.is_stream(obj, env):
                    raise Undecided('write/read on something that is not the stream parameter')
                if (q.endswith('write')) != (env['dir'] == 'w'):
                    raise Undecided('mixed stream directions')
                ptr = self.ptr_of(args[0], env)
                ln = self.length(args[1], env)
                if ptr is None or ln is None:
                    raise Undecided('`%s`: pointer or length has no normal form' % tu.show(n))
                if ptr[0] == 'addr':
                    w = ln.const_value()
                    if w is None:
                        raise Undecided('`%s`: object image with a non-constant length' % tu.show(n))
                    tname = bare_type(ptr[2])
                    if ptr[1][0] == 'local':
                        # the image of an integer local / by-value parameter: a length field, as with `buf << n` / `buf >> n`
                        did = ptr[1][1]
                        if tname not in BUILTIN_SIZE or BUILTIN_SIZE[tname] != w:
                            raise Undecided('`%s`: image of the local `%s` of type %s with length %d' % (tu.show(n), ptr[1][2], tname, w))
                        if env['dir'] == 'w':
                            v = env['vars'].get(did)
                            if not isinstance(v, Poly):
                                raise Undecided('local `%s` is written before it has a value' % ptr[1][2])
                            return [('FIELD', w, v, None, ptr[1][2], tu.loc(n))]
                        env['vars'][did] = Poly.atom(('rvar', did, ptr[1][2]))
                        return [('FIELD', w, None, ('rvar', did, ptr[1][2]), ptr[1][2], tu.loc(n))]
                    return [('RAW', ptr[1], w, tname, tu.loc(n))]
                esz = BUILTIN_SIZE.get(ptr[2]) or type_size(tu, ptr[2])
                if esz is None:
                    raise Undecided('element size of `%s` unknown' % ptr[2])
                return [('DATA', ptr[1], ln, esz, tu.loc(n))]
            if nm == 'resize' and obj is not None and len(args) >= 1:
                p = self.path_of(obj, env)
                pre = []
                v = self.length(args[0], env, pre)
                if p is None or v is None:
                    raise Undecided('`%s` is not understood' % tu.show(n))
                return pre + [('RESIZE', p, v, tu.loc(n))]
            if nm in ('reserve', 'clear', 'shrink_to_fit') and obj is not None and self.path_of(obj, env) is not None:
                if nm == 'clear':
                    return [('RESIZE', self.path_of(obj, env), Poly.const(0), tu.loc(n))]
                return []
        raise Undecided('expression `%s` in a stream operator is not modelled' % tu.show(n))


def total_bytes(items):
    """closed form (Poly over the sizes of the streamed value) of the number of bytes a signature stands for;
    ('var', why) when the count depends on the individual elements (strings / vectors inside a container)"""
    tot = Poly.const(0)
    for it in items:
        k = it[0]
        if k in ('RAW',):
            tot = tot + it[2]
        elif k == 'FIELD':
            tot = tot + it[1]
        elif k == 'DATA':
            tot = tot + it[2]
        elif k == 'COUNT':
            tot = tot + it[1]
        elif k == 'REPEAT':
            sub = total_bytes(it[3])
            if not isinstance(sub, Poly):
                return sub
            if sub.const_value() is None:
                return ('var', 'every element of `%s` contributes its own length (%s)' % (show_path(it[2]), show(sub)))
            tot = tot + it[1] * sub
        elif k == 'RESIZE':
            pass
        elif k == 'IF':
            a, b = total_bytes(it[2]), total_bytes(it[3])
            if isinstance(a, Poly) and isinstance(b, Poly) and a == b:
                tot = tot + a
            else:
                return ('var', 'the byte count depends on the branch `%s`' % ' && '.join(show_rel(c) for c in it[1]))
    return tot


def grow_step(item, path):
    """`if (i == c.size()) c.resize(m * c.size())` (m >= 2) or `c.resize(c.size() + k)` inside the loop that fills c[i]:
    returns a text describing the growth, else None"""
    if item[0] != 'IF' or len(item[1]) != 1 or item[3] or len(item[2]) != 1 or item[2][0][0] != 'RESIZE' or item[2][0][1] != path:
        return None
    p, op = item[1][0]
    sz = ('size', path)
    iv = [a for a in p.atoms() if isinstance(a, tuple) and a[0] == 'ivar']
    if len(iv) != 1 or op not in ('==', '<='):
        return None
    if p not in (Poly.atom(iv[0]) - Poly.atom(sz), Poly.atom(sz) - Poly.atom(iv[0])):
        return None
    g = item[2][0][2]
    co = g.coeff(sz)
    if co is None:
        return None
    m, k = co[0].const_value(), co[1].const_value()
    if m is None or k is None or not ((m >= 2 and k >= 0) or (m == 1 and k >= 1)):
        return None
    return show(g)


def min_bytes(items, keep=()):
    """a lower bound (Poly) of the bytes the items stand for: lengths that are not known yet (not in keep) count as 0"""
    tot = Poly.const(0)
    for it in items:
        k = it[0]
        if k == 'RAW':
            tot = tot + it[2]
        elif k == 'FIELD':
            tot = tot + it[1]
        elif k in ('DATA', 'COUNT'):
            v = it[2] if k == 'DATA' else it[1]
            for a in list(v.atoms()):
                if isinstance(a, tuple) and a[0] == 'size' and a not in keep:
                    v = v.subst(a, Poly.const(0))
            tot = tot + v
        elif k == 'REPEAT':
            sub = min_bytes(it[3], keep)
            cnt = it[1]
            for a in list(sub.atoms()):
                if isinstance(a, tuple) and a[0] == 'size':
                    sub = sub.subst(a, Poly.const(0))
            for a in list(cnt.atoms()):
                if isinstance(a, tuple) and a[0] == 'size' and a not in keep:
                    cnt = cnt.subst(a, Poly.const(0))
            tot = tot + cnt * sub
        elif k == 'IF':
            return None
    return tot


def flatten(items):
    """REPEAT(n, c, [RAW(c[i], k)]) over contiguous storage is the byte block DATA(c, n*k)"""
    out = []
    for it in items:
        if it[0] == 'REPEAT':
            body = []
            for b_ in it[3]:
                g_ = grow_step(b_, it[2])
                if g_ is not None:
                    out.append(('GROW', it[2], g_, it[1], b_[4]))
                else:
                    body.append(b_)
            it = ('REPEAT', it[1], it[2], body, it[4])
            sub = flatten(it[3])
            if len(sub) == 1 and sub[0][0] == 'RAW' and sub[0][1] == ('elem', it[2]):
                out.append(('DATA', it[2], it[1] * sub[0][2], sub[0][2], it[4]))
            else:
                out.append(('REPEAT', it[1], it[2], sub, it[4]))
        elif it[0] == 'IF':
            out.append(('IF', it[1], flatten(it[2]), flatten(it[3]), it[4]))
        else:
            out.append(it)
    return out


def self_check_writer(items, problems, sizes=None):
    """a writer must describe the whole container: counts and byte lengths derive from size(container)"""
    for it in items:
        if it[0] == 'DATA' and it[1][0] == 'cstr':
            continue          # reported with its own message when paired with the reader
        if it[0] == 'DATA':
            want = Poly.atom(('size', it[1])) * it[3]
            if it[2] != want:
                problems.append(('data-length', 'writes %s bytes of `%s`, which holds %s bytes' %
                                 (show(it[2]), show_path(it[1]), show(want)), it[4]))
        elif it[0] == 'REPEAT':
            if it[1] != Poly.atom(('size', it[2])):
                problems.append(('repeat-count', 'writes %s elements of `%s`, which holds %s' %
                                 (show(it[1]), show_path(it[2]), show(Poly.atom(('size', it[2])))), it[4]))
            self_check_writer(it[3], problems)
        elif it[0] == 'IF':
            self_check_writer(it[2], problems)
            self_check_writer(it[3], problems)


def pair_same(A, B, problems):
    """two writer signatures must be item-wise identical (locations ignored)"""
    def norm(items):
        out = []
        for it in items:
            if it[0] == 'REPEAT':
                out.append(('REPEAT', it[1], it[2], norm(it[3])))
            elif it[0] == 'IF':
                out.append(('IF', tuple(it[1]), tuple(norm(it[2])), tuple(norm(it[3]))))
            elif it[0] == 'FIELD':
                out.append(('FIELD', it[1], it[2]))
            elif it[0] in ('RAW', 'DATA'):
                out.append(it[:3])
            else:
                out.append(it[:2])
        return out
    if norm(A) != norm(B):
        problems.append('%s vs %s' % (' '.join(show_items(A)), ' '.join(show_items(B))))


def cases(items):
    """expand IF items of one level: [(assumptions [(Poly, op)], items without IF)]"""
    res = [([], [])]
    for it in items:
        if it[0] == 'IF':
            new = []
            for a, l in res:
                for ca, cl in cases(it[2]):
                    new.append((a + list(it[1]) + ca, l + cl))
                for ca, cl in cases(it[3]):
                    new.append((a + [negate(it[1][0])] + ca, l + cl))
            res = new
        else:
            res = [(a, l + [it]) for a, l in res]
    return res


def zero_atoms(assume):
    """atoms (sizes / lengths, all non-negative) that the assumptions force to 0"""
    z = set()
    for p, op in assume:
        if op in ('<=', '==') and len(p.t) == 1:
            (mon, c), = p.t.items()
            if len(mon) == 1 and c > 0:
                z.add(mon[0])
    return z


def contradictory(assume):
    for a in assume:
        for b in assume:
            if a[1] == '<=' and b[1] == '<=' and (a[0] + b[0]).const_value() is not None and (a[0] + b[0]).const_value() >= 1:
                return True
            if a[1] == '==' and b[1] == '!=' and a[0] == b[0]:
                return True
    return False


def pair(W, R, problems, bind=None, sizes=None, aw=(), ar=()):
    """pair writer items with reader items, once per combination of the conditional branches on both sides;
    problems: [(kind, text, loc)]"""
    bind = {} if bind is None else bind
    sizes = {} if sizes is None else sizes
    for wa, wl in cases(flatten(W)):
        for ra, rl in cases(flatten(R)):
            local = []
            b, sz = dict(bind), dict(sizes)
            aw2, ar2 = list(aw) + wa, list(ar) + ra
            _pair_flat(wl, rl, local, b, sz, aw2, ar2)
            if not local:
                continue
            allc = list(aw2)
            for p_, op in ar2:
                for a, v in b.items():
                    if v is not None:
                        p_ = p_.subst(a, v)
                allc.append((p_, op))
            if contradictory(allc):
                continue          # this combination of branches cannot occur for one stream
            problems.extend(local)
            return


def _pair_flat(W, R, problems, bind, sizes, aw, ar):
    def rsub(p):
        for a, v in bind.items():
            if v is not None:
                p = p.subst(a, v)
        return p

    def norm(p):
        """value of p under the branch assumptions (lengths that are known to be 0)"""
        z = zero_atoms(list(aw) + [(rsub(q), op) for q, op in ar])
        for a in z:
            p = p.subst(a, Poly.const(0))
        return p

    def cond_text():
        cs = list(aw) + [(rsub(q), op) for q, op in ar]
        return (' on the path where ' + ' && '.join(show_rel(c) for c in cs)) if cs else ''

    emptied = []          # containers the writer emitted with length 0 and the reader did not visit
    grown = {}            # containers enlarged on demand inside their fill loop: path -> (step, initial size, loc)
    i = j = 0
    while True:
        while j < len(R) and R[j][0] in ('RESIZE', 'APPEND', 'GROW'):
            if R[j][0] == 'GROW':
                # the loop enlarges the destination whenever the index reaches its size: every element access is in range
                # (given a non-empty start), but the size it ends with is whatever the last growth step produced
                if sizes.get(R[j][1]) is None:
                    problems.append(('no-resize', 'the reader grows `%s` on demand but never gives it an initial size%s'
                                     % (show_path(R[j][1]), cond_text()), R[j][4]))
                    return
                grown[R[j][1]] = (R[j][2], sizes[R[j][1]], R[j][4])
                sizes[R[j][1]] = rsub(R[j][3])
            elif R[j][0] == 'APPEND':
                # elements are appended one by one: the destination ends up with (what it held before) + count elements
                have0 = sizes.get(R[j][1])
                if have0 is None:
                    problems.append(('no-clear', 'the reader appends the %s elements it reads to `%s` without emptying it first: '
                                     'a destination that is not empty (reused message object, receive loop) keeps its old '
                                     'elements in front of the ones read%s' % (show(rsub(R[j][2])), show_path(R[j][1]), cond_text()),
                                     R[j][3]))
                    return
                if norm(have0) != Poly.const(0):
                    problems.append(('dest-size', 'the reader appends to `%s`, which it sized to %s before'
                                     % (show_path(R[j][1]), show(have0)), R[j][3]))
                    return
                sizes[R[j][1]] = rsub(R[j][2])
            else:
                sizes[R[j][1]] = rsub(R[j][2])
                grown.pop(R[j][1], None)        # an explicit resize after the growth fixes the final length
            j += 1
        # a block / repeat of length 0 is not on the wire
        if i < len(W) and W[i][0] in ('DATA', 'REPEAT') and norm(W[i][2] if W[i][0] == 'DATA' else W[i][1]) == Poly.const(0) and \
                not (j < len(R) and R[j][0] == W[i][0]):
            emptied.append((W[i][1] if W[i][0] == 'DATA' else W[i][2], W[i][-1]))
            i += 1
            continue
        if j < len(R) and R[j][0] in ('DATA', 'REPEAT') and norm(rsub(R[j][2] if R[j][0] == 'DATA' else R[j][1])) == Poly.const(0) and \
                not (i < len(W) and W[i][0] == R[j][0]):
            j += 1
            continue
        if j < len(R) and R[j][0] == 'THROW':
            # the reader gives up here: legitimate only if the stream cannot hold the rest of the value
            conds = [(rsub(q), op) for q, op in ar]
            # a query of the stream position is only meaningful where it was made: keep the most recent one
            sq = [c_ for c_ in conds if any(isinstance(a, tuple) and a[0] == 'streamq' for a in c_[0].atoms())]
            conds = [c_ for c_ in conds if c_ not in sq] + sq[-1:]
            rem_atoms = [a for c_ in conds for a in c_[0].atoms() if isinstance(a, tuple) and a[0] == 'streamq']
            mb = min_bytes(W[i:], {a for c_ in conds for a in c_[0].atoms()})
            if not rem_atoms or mb is None:
                problems.append(('undecided-throw', 'the reader throws under `%s`, a condition that is not understood'
                                 % ' && '.join(show_rel(c_) for c_ in conds), R[j][1]))
                return
            rem = Poly.atom(rem_atoms[0])
            wit = small_model(conds + list(aw) + [(mb - rem, '<=')])
            if wit is not None:
                problems.append(('rejects-valid-stream', 'the reader throws when `%s` although the rest of the value can be as short as '
                                 '%s bytes, e.g. for %s: a stream that holds the whole value is rejected'
                                 % (' && '.join(show_rel(c_) for c_ in conds), show(mb),
                                    ', '.join('%s = %d' % (atom_name(a), v_) for a, v_ in sorted(wit.items(), key=lambda kv: repr(kv[0])))),
                                 R[j][1]))
            elif not (len(conds) == 1 and conds[0][1] == '<=' and
                      upper_bound((rem - mb + 1) - conds[0][0], [], 2 ** 63) is not None and
                      upper_bound((rem - mb + 1) - conds[0][0], [], 2 ** 63) <= 0):
                problems.append(('undecided-throw', 'the reader throws under `%s`; whether that implies that fewer than %s bytes are '
                                 'left is not decided' % (' && '.join(show_rel(c_) for c_ in conds), show(mb)), R[j][1]))
            return
        if i >= len(W) or j >= len(R):
            break
        w, r = W[i], R[j]
        if w[0] != r[0]:
            problems.append(('shape', 'writer emits %s where the reader expects %s%s' % (show_items([w])[0], show_items([r])[0], cond_text()),
                             r[-1] if isinstance(r[-1], str) else '?'))
            return
        if w[0] == 'FIELD':
            if w[1] != r[1]:
                problems.append(('field-width', 'a length field is written as %d bytes (%s) but read as %d bytes (%s)'
                                 % (w[1], w[5], r[1], r[5]), r[5]))
                return
            bind[r[3]] = w[2]
        elif w[0] == 'RAW':
            if w[1] != r[1] or w[2] != r[2]:
                problems.append(('raw-width', 'object image of `%s` is written as %d bytes but read as %d bytes into `%s`'
                                 % (show_path(w[1]), w[2], r[2], show_path(r[1])), r[4]))
                return
        elif w[0] == 'DATA':
            rl = rsub(r[2])
            have = sizes.get(r[1])
            if w[1][0] == 'cstr' and w[1][1] == r[1]:
                problems.append(('length-function', 'the writer of `%s` hands `%s` to the C-string operator, which measures the length '
                                 'with strlen: a std::string holding size() characters that include a NUL is cut at the first NUL '
                                 '(length field and data are strlen(%s), required size(%s))'
                                 % (show_path(r[1]), show_path(w[1]), show_path(w[1]), show_path(r[1])), w[4]))
                return
            if w[1] != r[1]:
                problems.append(('shape', 'data block of `%s` is read into `%s`' % (show_path(w[1]), show_path(r[1])), r[4]))
                return
            if norm(rl) != norm(w[2]):
                problems.append(('data-length', 'the writer emits %s bytes for `%s` but the reader consumes %s%s'
                                 % (show(w[2]), show_path(w[1]), show(rl), cond_text()), r[4]))
                return
            if have is None:
                problems.append(('no-resize', 'the reader stores %s bytes into `%s` without sizing it first%s'
                                 % (show(rl), show_path(r[1]), cond_text()), r[4]))
                return
            if norm(have * r[3]) != norm(rl):
                problems.append(('dest-size', 'the reader stores %s bytes into `%s`, which was sized to %s bytes%s'
                                 % (show(rl), show_path(r[1]), show(have * r[3]), cond_text()), r[4]))
                return
            if norm(have) != norm(Poly.atom(('size', w[1]))):
                problems.append(('dest-size', 'the reader sizes `%s` to %s elements, the writer had %s%s'
                                 % (show_path(r[1]), show(have), show(Poly.atom(('size', w[1]))), cond_text()), r[4]))
                return
        elif w[0] == 'REPEAT':
            rc = rsub(r[1])
            have = sizes.get(r[2])
            if w[2] != r[2]:
                problems.append(('shape', 'elements of `%s` are read into `%s`' % (show_path(w[2]), show_path(r[2])), r[4]))
                return
            if norm(rc) != norm(w[1]):
                problems.append(('repeat-count', 'the writer emits %s elements, the reader consumes %s%s' % (show(w[1]), show(rc), cond_text()),
                                 r[4]))
                return
            if have is None or norm(have) != norm(rc):
                problems.append(('no-resize' if have is None else 'dest-size',
                                 'the reader stores %s elements into `%s`, which %s%s' %
                                 (show(rc), show_path(r[2]), 'was never sized' if have is None else 'was sized to ' + show(have),
                                  cond_text()), r[4]))
                return
            n0 = len(problems)
            pair(w[3], r[3], problems, dict(bind), dict(sizes), aw,
                 [(rsub(q), op) for q, op in ar if not any(isinstance(a, tuple) and a[0] == 'streamq' for a in q.atoms())])
            if len(problems) > n0:
                return
        i += 1
        j += 1
    while j < len(R) and R[j][0] in ('RESIZE', 'APPEND', 'GROW'):
        if R[j][0] == 'RESIZE':
            grown.pop(R[j][1], None)
        if R[j][0] == 'GROW':
            j += 1
            continue
        if R[j][0] == 'APPEND' and sizes.get(R[j][1]) is None:
            problems.append(('no-clear', 'the reader appends to `%s` without emptying it first%s' % (show_path(R[j][1]), cond_text()),
                             R[j][3]))
            return
        sizes[R[j][1]] = rsub(R[j][2])
        j += 1
    if i < len(W) or j < len(R):
        rest = show_items(W[i:]) if i < len(W) else show_items(R[j:])
        problems.append(('shape', 'the %s has the additional item(s) %s%s' % ('writer' if i < len(W) else 'reader', ' '.join(rest),
                                                                             cond_text()),
                         (W[i] if i < len(W) else R[j])[-1] if isinstance((W[i] if i < len(W) else R[j])[-1], str) else '?'))
        return
    for path, (step, init, loc) in grown.items():
        problems.append(('dest-size-not-trimmed', 'the reader sizes `%s` to %s and enlarges it to %s whenever the index reaches its '
                         'size, but never sets it to the length read: it ends with the size of the last growth step, the elements '
                         'beyond the length read are value-initialised extras%s' % (show_path(path), show(init), step, cond_text()), loc))
        return
    # the destination of a container that was written empty must still be given length 0: otherwise a destination that is
    # reused (record loops, elements kept by vector::resize) keeps its previous contents
    for path, loc in emptied:
        have = sizes.get(path)
        if have is None:
            problems.append(('no-resize', 'the reader returns without setting the size of `%s`%s: the destination keeps its '
                             'previous contents, so an empty %s is read back as the old value'
                             % (show_path(path), cond_text(), 'string / container'), loc))
            return
        if norm(have) != Poly.const(0):
            problems.append(('dest-size', 'the reader sizes `%s` to %s although the length read is 0%s'
                             % (show_path(path), show(have), cond_text()), loc))
            return


WRAP_RX = re.compile(r'^rkcommon::utility::(AbstractArray|ArrayView|OwnedArray|FixedArray|FixedArrayView)<(.+)>$')
PROBE_NS = 'rkverif::c15::'


def pattern_sig(tu, f):
    p = tu.functions.get(f.get('pat')) if f.get('pat') else None
    p = p or f
    name = p['q'].split('::')[-1]
    m = re.match(r'^[^(]*\((.*)\)[^)]*$', p['fty'])
    args = m.group(1) if m else p['fty']
    second = args.split(',', 1)[1].strip() if ',' in args else args
    return '%s(%s)' % (name, second.replace('rkcommon::networking::', '').replace('utility::', ''))


def all_raw(items, out):
    for it in items:
        if it[0] == 'RAW':
            out.append(it)
        elif it[0] == 'REPEAT':
            all_raw(it[3], out)
        elif it[0] == 'IF':
            all_raw(it[2], out)
            all_raw(it[3], out)


def check_signatures(ctx, tu, lib_tu=None):
    R2 = 'R-C15-2'
    ctx.describe(R2, 'writer and reader of the same type have equal wire signatures (field widths, object image sizes, data '
                 'block lengths, repeat counts, destination sized before it is filled); raw object images only of '
                 'trivially copyable types; the array wrapper types are written as length + elements whatever their '
                 'static type')
    sb = SigBuilder(tu)
    if lib_tu is not None:
        sb.other = SigBuilder(lib_tu)
        sb.other.raw_types = sb.raw_types              # one table of raw object images
        sb.other.stream_queries = sb.stream_queries
    writers, readers, calcs = {}, {}, {}
    unshaped = set()      # operand types whose operator exists but could not be abstracted (reported as undecided)
    nprobe = 0
    for f in sorted(tu.functions.values(), key=lambda x: (x['f'], x['l'])):
        if not f['q'].startswith(PROBE_NS) or tu.body(f) is None or f.get('rec'):
            continue
        ops = [n for n in tu.walk(tu.body(f)) if sb.is_stream_op(n)]
        if len(ops) != 1:
            ctx.broken('%s: probe %s must contain exactly one stream operation' % (R2, f['q']))
            continue
        op = ops[0]
        callee = sb.resolve(op)
        opnd = tu.strip(tu.kids(op)[2], casts=True)
        ty = bare_type(tu.sd(tu.strip(tu.kids(op)[2])).get('ct', ''))
        if opnd is not None and opnd.get('kind') == 'StringLiteral':
            ty = 'const char *'
        nprobe += 1
        if callee is None:
            ctx.undecided(R2, f['q'], 'the selected operator has no body in the facts', tu.fn_loc(f))
            continue
        try:
            d, items = sb.sig(callee)
        except Undecided as u:
            ctx.undecided(R2, '%s for %s' % (pattern_sig(tu, callee), ty), str(u), tu.fn_loc(callee))
            unshaped.add(ty)
            continue
        stream_ty = bare_type(f['params'][0]['ct']) if f.get('params') else ''
        if stream_ty == NET + 'WriteSizeCalculator':
            calcs.setdefault(ty, (callee, items, f))
        else:
            (writers if d == 'w' else readers).setdefault(ty, (callee, items, f))
    ctx.floor(R2, nprobe, 50, 'stream operator probes in drivers/c15_streams.cpp: 58')
    npairs = 0
    # ---- raw images must be of trivially copyable types
    raws = {}
    for ty, (callee, items, probe) in list(writers.items()) + list(readers.items()):
        rl = []
        all_raw(items, rl)
        for it in rl:
            raws.setdefault(it[3], (it, callee, ty))
            sz = type_size(tu, it[3])
            if sz is not None and sz != it[2]:
                ctx.violation(R2, '%s for %s' % (pattern_sig(tu, callee), ty), 'the raw image of `%s` is %d bytes but the object '
                              'has %d' % (it[3], it[2], sz), it[4],
                              key='%s|%s|%s|raw-width' % (R2, tu.fn_file(callee), pattern_sig(tu, callee)))
    bad_raw = trivially_copyable_witness(ctx, tu, sorted(raws))
    skip = set()
    if bad_raw is None:
        ctx.undecided(R2, 'raw-image witness', 'the trivially-copyable witness unit could not be evaluated', 'drivers/c15_streams.cpp')
    else:
        for tname in sorted(raws):
            it, callee, ty = raws[tname]
            npairs += 1
            inst = 'raw image of %s via %s' % (tname, pattern_sig(tu, callee))
            if tname in bad_raw:
                m = WRAP_RX.match(tname)
                detail = 'array-wrapper-raw-image' if m else 'raw-image|' + re.sub(r'<.*', '', tname)
                ctx.violation(R2, inst, 'overload resolution selects the generic raw-bytes operator for `%s`: its %d-byte object '
                              'representation (internal pointers and bookkeeping) is streamed instead of %s; `%s` is not trivially '
                              'copyable, so the bytes cannot be read back into an equal value'
                              % (tname, it[2], 'the length and the elements' if m else 'its value', tname), it[4],
                              key='%s|%s|%s|%s' % (R2, tu.fn_file(callee), pattern_sig(tu, callee), detail))
                skip.add(tname)
            else:
                ctx.ok(R2, inst, 'trivially copyable, %d bytes' % it[2], it[4])
    # ---- pairing
    jobs = []
    for ty, w in sorted(writers.items()):
        m = WRAP_RX.match(ty)
        if ty in skip:
            continue
        if m:
            rty = 'std::vector<%s>' % m.group(2)
        elif ty == 'const char *':
            rty = 'std::basic_string<char>'
        else:
            rty = ty
        r = readers.get(rty)
        if r is None:
            if rty in unshaped or any(rty in u or u in rty for u in unshaped):
                ctx.undecided(R2, 'write %s / read %s' % (ty, rty), 'the reader of `%s` exists but its shape is not understood '
                              '(see above)' % rty, tu.fn_loc(w[0]))
            else:
                ctx.broken('%s: no reader probe for `%s` (needed to pair the writer of `%s`)' % (R2, rty, ty))
            continue
        jobs.append((ty, rty, w, r))
    for ty, rty, (wf, W, wp), (rf, Rr, rp) in jobs:
        npairs += 1
        inst = 'write %s / read %s' % (ty, rty)
        problems = []
        self_check_writer(flatten(W), problems)
        if not problems:
            pair(W, Rr, problems)
        wsig, rsig = ' '.join(show_items(flatten(W))), ' '.join(show_items(flatten(Rr)))
        if problems:
            for kind, text, loc in problems:
                if kind.startswith('undecided'):
                    ctx.undecided(R2, inst, '%s (writer: %s; reader: %s)' % (text, wsig, rsig), loc)
                    continue
                ctx.violation(R2, inst, '%s (writer: %s; reader: %s)' % (text, wsig, rsig), loc,
                              key='%s|%s|%s ~ %s|%s' % (R2, tu.fn_file(wf), pattern_sig(tu, wf), pattern_sig(tu, rf), kind))
        else:
            ctx.ok(R2, inst, 'writer: %s; reader: %s' % (wsig, rsig), tu.fn_loc(wf))
    ctx.floor(R2, npairs, 20, 'raw-image types + writer/reader pairs on the pinned tree: 27')
    # ---- R-C15-5: the operator selected for a WriteSizeCalculator accounts the bytes the WriteStream operator emits
    R5 = 'R-C15-5'
    ctx.describe(R5, 'for every written type the operator that overload resolution selects when the stream is a '
                 'WriteSizeCalculator is the one selected for a WriteStream, or accounts exactly the same number of bytes')
    n5 = 0
    for ty, (wf, W, wp) in sorted(writers.items()):
        c = calcs.get(ty)
        if c is None:
            if unshaped:
                continue
            ctx.broken('%s: no WriteSizeCalculator probe for `%s`' % (R5, ty))
            continue
        cf, C, cp = c
        n5 += 1
        inst = 'size of %s' % ty
        if cf['id'] == wf['id']:
            ctx.ok(R5, inst, 'same operator %s as for a WriteStream (and WriteSizeCalculator::write adds exactly size)'
                   % pattern_sig(tu, wf), tu.fn_loc(cp))
            continue
        tw, tc = total_bytes(flatten(W)), total_bytes(flatten(C))
        key = '%s|%s|%s|size-prediction' % (R5, tu.fn_file(cf), pattern_sig(tu, cf))
        if isinstance(tw, Poly) and isinstance(tc, Poly):
            if tw == tc:
                ctx.ok(R5, inst, 'a separate operator for the calculator accounts %s bytes, as written' % show(tc), tu.fn_loc(cf))
            else:
                ctx.violation(R5, inst, 'for a WriteSizeCalculator overload resolution selects %s, which accounts %s bytes; the '
                              'operator used for real streams emits %s bytes' % (pattern_sig(tu, cf), show(tc), show(tw)),
                              tu.fn_loc(cf), key=key)
        elif isinstance(tc, Poly):
            ctx.violation(R5, inst, 'for a WriteSizeCalculator overload resolution selects %s, which accounts the fixed formula %s '
                          'bytes; the operator used for real streams emits a length that depends on the elements: %s (signature %s)'
                          % (pattern_sig(tu, cf), show(tc), tw[1], ' '.join(show_items(flatten(W)))), tu.fn_loc(cf), key=key)
        else:
            problems = []
            pair_same(flatten(W), flatten(C), problems)
            if problems:
                ctx.undecided(R5, inst, 'the calculator operator %s differs structurally from the stream operator: %s'
                              % (pattern_sig(tu, cf), problems[0]), tu.fn_loc(cf))
            else:
                ctx.ok(R5, inst, 'a separate operator with the same wire signature', tu.fn_loc(cf))
    ctx.floor(R5, n5, 20, 'written probe types: 22')


def check_buffer_moves(ctx, tu):
    """R-C15-6: the (pointer, size) pair that BufferWriter / BufferReader bounds-check against is cached in the
    AbstractArray base of the buffer object; an operation that hands the storage of the writer's buffer to another
    object must leave the source describing no bytes."""
    R = 'R-C15-6'
    ctx.describe(R, 'the array type behind BufferWriter::buffer keeps its cached (pointer, size) in step with the storage it '
                 'owns: its move operations are absent, or user-provided and re-synchronise the moved-from object')
    n = 0
    wr = [r for r in tu.records.values() if r['q'] == NET + 'BufferWriter']
    if not wr:
        ctx.broken('%s: record BufferWriter not found' % R)
        return
    bt = None
    for fd in wr[0]['fields']:
        m = re.match(r'^(?:const )?std::shared_ptr<(rkcommon::utility::\w+<.*>)>$', fd['ct'])
        if m:
            bt = m.group(1)
    rec = tu.records_by_type.get(bt) if bt else None
    if rec is None:
        ctx.broken('%s: type of BufferWriter::buffer not found in the record table' % R)
        return
    base = [b for b in rec.get('bases', []) if b.startswith(UTIL + 'AbstractArray<')]
    owning = [fd for fd in rec['fields'] if fd['ct'].startswith('std::vector<') or 'unique_ptr' in fd['ct'] or fd['ct'].endswith('*')]
    if not base or not owning:
        ctx.undecided(R, short(bt), 'the buffer type does not have the shape "AbstractArray base + owning member"', '?')
        return
    file = 'rkcommon/utility/OwnedArray.h'
    for which, label, attr in (('move_ctor', 'move constructor', 'ctor'), ('move_assign', 'move assignment', 'assign')):
        info = rec.get(which, {})
        inst = '%s %s' % (short(bt), label)
        key = '%s|%s|%s|%s' % (R, file, short(rec['q']), which)
        n += 1
        if not info.get('has') or info.get('deleted'):
            ctx.ok(R, inst, 'not declared: moving falls back to copying, the source stays consistent', file)
            continue
        if not info.get('user'):
            ctx.violation(R, inst, 'the %s is implicitly defined / defaulted: it moves the storage member `%s` to the destination '
                          'but copies the cached (pointer, size) of the %s base, so the moved-from array still reports its old size '
                          'at a block it no longer owns; a BufferWriter / BufferReader on it bounds-checks against that stale extent'
                          % (label, owning[0]['name'], base[0].replace(UTIL, '')), file, key=key + '|defaulted')
            continue
        fs = [f for f in tu.functions.values() if f.get('rect') == bt and f.get(attr) == 'move' and tu.cfg(f) is not None]
        if not fs:
            ctx.broken('%s: body of the %s of %s not in the facts (driver probe rkverif::c15x::move_owned missing?)' % (R, label, bt))
            continue
        f = fs[0]
        g = tu.cfg(f)
        src = f['params'][0]['id'] if f.get('params') else None

        def scan(fn, srcid, depth=0):
            """(transfers, resyncs, handled) of fn w.r.t. the source object srcid; helper members of the same class that
            receive the source are analysed on their own: a helper that takes the storage and re-synchronises the
            source itself is `handled`; one that leaves the source stale counts as a transfer at the call"""
            g_ = tu.cfg(fn)
            tr, rs, handled = [], [], []

            def of_src(e):
                a0 = tu.strip(e, casts=True)
                return a0 is not None and a0.get('kind') == 'MemberExpr' and tu.kids(a0) and tu.ref_decl(tu.kids(a0)[0]) == srcid

            for b, i_, x in g_.stmts():
                if x.get('kind') == 'CallExpr' and tu.sd(x).get('q') in ('std::move', 'std::swap', 'std::exchange'):
                    if any(of_src(a) for a in tu.call_parts(x)[2]):
                        tr.append((b.id, i_, x))
                if x.get('kind') == 'CXXMemberCallExpr':
                    sd, obj, args = tu.call_parts(x)
                    nm = sd.get('q', '').split('::')[-1]
                    if obj is not None and tu.ref_decl(obj) == srcid and nm in ('reset', 'setPtr', 'resize', 'clear'):
                        rs.append((b.id, i_, x))
                    if nm == 'swap' and ((obj is not None and of_src(obj)) or any(of_src(a) for a in args)):
                        tr.append((b.id, i_, x))
                    callee = tu.callee_fn(x)
                    pos = [k_ for k_, a in enumerate(args) if tu.ref_decl(tu.strip(a, casts=True)) == srcid]
                    if callee is not None and callee.get('rect') == fn.get('rect') and tu.cfg(callee) is not None and pos and \
                            depth < 3 and pos[0] < len(callee.get('params', [])) and obj is not None and tu.is_this(obj):
                        t2, r2, h2 = scan(callee, callee['params'][pos[0]]['id'], depth + 1)
                        g2 = tu.cfg(callee)
                        stale = [t for t in t2 if not any(g2.postdominates((rb, ri), (t[0], t[1])) for rb, ri, rx in r2)]
                        if stale:
                            tr.append((b.id, i_, x))
                        elif t2 or h2:
                            handled.append((b.id, i_, x))
            for b in g_.blocks.values():
                for i_, e in enumerate(b.el):
                    if e[0] == 'I' and e[2] is not None:
                        init = tu.node(e[1])
                        for x in (tu.walk(init) if init is not None else ()):
                            if x.get('kind') == 'CallExpr' and tu.sd(x).get('q') == 'std::move' and of_src(tu.call_parts(x)[2][0]):
                                if not any(t[2]['id'] == x['id'] for t in tr):
                                    tr.append((b.id, i_, x))
            return tr, rs, handled

        transfers, resyncs, handled = scan(f, src)
        if not transfers and handled:
            ctx.ok(R, inst, 'hands the source to %s, which takes over the storage and re-synchronises the source'
                   % tu.sd(handled[0][2]).get('q', '').split('::')[-1], tu.fn_loc(f))
            continue
        if not transfers:
            ctx.undecided(R, inst, 'user-provided %s in which no transfer of a member of the source is recognised' % label, tu.fn_loc(f))
            continue
        bad = [t for t in transfers if not any(g.postdominates((rb, ri), (t[0], t[1])) for rb, ri, rx in resyncs)]
        if bad:
            ctx.violation(R, inst, 'the %s takes over `%s` but no path-wise following call re-synchronises the source (reset() / '
                          'setPtr): the moved-from array keeps the pointer and size of a block it no longer owns'
                          % (label, tu.show(tu.call_parts(bad[0][2])[2][0]) if tu.call_parts(bad[0][2])[2] else 'the storage'),
                          tu.loc(bad[0][2]), key=key + '|moved-from-not-reset')
        else:
            ctx.ok(R, inst, 'takes over the storage and then calls %s on the source' % tu.sd(resyncs[0][2]).get('q', '').split('::')[-1],
                   tu.fn_loc(f))
    ctx.floor(R, n, 2, 'move constructor and move assignment of the BufferWriter buffer type')


# =====================================================================================================
#  R-C15-8: the cached (pointer, size) of the buffer type describes its storage at every exit of every member
# =====================================================================================================
STORAGE_QUERIES = {'data', 'size', 'empty', 'begin', 'end', 'cbegin', 'cend', 'capacity', 'operator[]', 'at', 'front', 'back',
                   'max_size', 'rbegin', 'rend', 'get_allocator'}
# method -> may it throw (allocation); the strong guarantee leaves the storage as it was when it does
STORAGE_MUTATORS = {'resize': True, 'reserve': True, 'push_back': True, 'emplace_back': True, 'assign': True, 'insert': True,
                    'emplace': True, 'clear': False, 'shrink_to_fit': False, 'pop_back': False, 'erase': False, 'swap': False}


def buffer_type(tu):
    """(type name, record, AbstractArray base, name of the std::vector member that owns the bytes) of BufferWriter::buffer"""
    wr = [r for r in tu.records.values() if r['q'] == NET + 'BufferWriter']
    if not wr:
        return None
    bt = None
    for fd in wr[0]['fields']:
        m = re.match(r'^(?:const )?std::shared_ptr<(rkcommon::utility::\w+<.*>)>$', fd['ct'])
        if m:
            bt = m.group(1)
    rec = tu.records_by_type.get(bt) if bt else None
    if rec is None:
        return None
    base = [b for b in rec.get('bases', []) if b.startswith(UTIL + 'AbstractArray<')]
    vecs = [fd for fd in rec['fields'] if fd['ct'].startswith('std::vector<')]
    return bt, rec, (base[0] if base else None), (vecs[0]['name'] if len(vecs) == 1 else None)


class SyncState:
    def __init__(self):
        self.gen = 0                 # number of changes of the storage so far
        self.ssize = None            # Poly: number of elements the storage holds now
        self.view = None             # (pointer value, count Poly, node that set it | None)
        self.cons = []
        self.env = {}                # local -> Poly | pointer value
        self.unsure = None           # reason why the path condition is incomplete
        self.last = None             # node of the last change of the storage
        self.fresh = 0

    def copy(self):
        c = SyncState()
        c.__dict__.update(self.__dict__)
        c.cons = list(self.cons)
        c.env = dict(self.env)
        return c


class SyncEngine:
    """walks every path of a member function of the buffer type and keeps, side by side, what the storage member holds
    and what the AbstractArray base was last told (setPtr)"""

    def __init__(self, ctx, tu, bt, storage, R, keyb):
        self.ctx, self.tu, self.bt, self.storage, self.R, self.keyb = ctx, tu, bt, storage, R, keyb
        self.problems = []           # (kind, fn, node, text, detail)   kind in violation / undecided

    # ---- values
    def is_storage(self, e):
        return e is not None and self.tu.member_of_this(e) == self.storage

    def fresh(self, st, what):
        st.fresh += 1
        return Poly.atom(('sym', '%s#%d' % (what, st.fresh)))

    def evaluator(self, st, params):
        tu = self.tu

        def var(n, did):
            if did in st.env:
                return st.env[did] if isinstance(st.env[did], Poly) else None
            p_ = params.get(did)
            if p_ is not None and not p_['ct'].rstrip().endswith('*'):
                return Poly.atom(('param', p_['name']))
            return None

        def call(n):
            if n.get('kind') == 'CXXMemberCallExpr':
                sd, obj, args = tu.call_parts(n)
                if self.is_storage(obj) and sd.get('q', '').split('::')[-1] == 'size' and not args:
                    return st.ssize
            return None

        return Evaluator(tu, var, None, call)

    def ptr(self, e, st):
        tu = self.tu
        x = tu.strip(e, casts=True)
        if x is None:
            return ('other', '?')
        k = x.get('kind')
        if k in ('CXXNullPtrLiteralExpr', 'GNUNullExpr') or (k == 'IntegerLiteral' and x.get('value') in ('0', 0)):
            return ('null',)
        if k == 'CXXMemberCallExpr':
            sd, obj, args = tu.call_parts(x)
            if self.is_storage(obj) and sd.get('q', '').split('::')[-1] == 'data' and not args:
                return ('data', st.gen)
        if k == 'DeclRefExpr' and isinstance(st.env.get(x.get('referencedDecl', {}).get('id')), tuple):
            return st.env[x['referencedDecl']['id']]
        if k == 'DeclRefExpr' and x.get('referencedDecl', {}).get('kind') == 'ParmVarDecl' and \
                tu.sd(x).get('ct', '').rstrip().endswith('*'):
            return ('foreign', x['referencedDecl'].get('name', '?'))
        return ('other', tu.show(x))

    # ---- the invariant
    def equal(self, a, b, st):
        """(True | False | None, witness text): is a == b on this path"""
        d = a - b
        c = d.const_value()
        if c is not None:
            return c == 0, ''
        for p_, op in st.cons:
            if op == '==' and (p_ == d or p_ == -d):
                return True, ''
        if st.unsure:
            return None, ''
        m = small_model(list(st.cons) + [(d, '!=')])
        if m is None:
            return None, ''
        return False, ', '.join('%s = %d' % (atom_name(a_), v_) for a_, v_ in sorted(m.items(), key=repr))

    def synced(self, st):
        """(verdict, text) -- does the view describe the storage"""
        pv, cnt, node = st.view
        if cnt is None:
            return None, 'the element count given to setPtr has no normal form'
        eq, wit = self.equal(cnt, st.ssize, st)
        if eq is None:
            return None, 'cannot decide whether the count `%s` equals the storage size `%s`' % (show(cnt), show(st.ssize))
        if eq is False:
            return False, 'the view reports %s element(s) while the storage holds %s%s' % (
                show(cnt), show(st.ssize), (' (e.g. %s)' % wit) if wit else '')
        if cnt.const_value() == 0:
            return True, ''                  # setPtr normalises an empty view to (nullptr, 0)
        if pv == ('data', st.gen):
            return True, ''
        if pv[0] == 'data':
            return False, 'the view keeps the pointer the storage had before `%s`, which may have moved the elements' % (
                self.tu.show(st.last) if st.last else 'it was changed')
        if pv[0] == 'null':
            z, wit = self.equal(cnt, Poly.const(0), st)
            if z is None:
                return None, 'null pointer with a count `%s` that is not decided' % show(cnt)
            return False, 'the view has a null pointer for %s element(s)' % show(cnt)
        if pv[0] == 'foreign':
            z, wit = self.equal(cnt, Poly.const(0), st)
            if z is None:
                return None, 'pointer parameter with a count `%s` that is not decided' % show(cnt)
            return False, 'the view points at the caller\'s memory `%s`, not at the copy the array owns' % pv[1]
        return None, 'pointer `%s` given to setPtr is not recognised' % pv[1]

    def view_text(self, st):
        pv, cnt, node = st.view
        if node is None:
            return 'the (pointer, size) it had on entry'
        return '`%s`' % self.tu.show(node)

    # ---- events
    def throw_point(self, fn, st, n, what):
        if fn.get('ctor'):
            return            # an exception leaving a constructor destroys the object: nobody sees the view
        ok, text = self.synced(st)
        if ok:
            return
        if ok is None:
            self.problems.append(('undecided', fn, n, 'state of the view when %s throws: %s' % (what, text), None))
            return
        self.problems.append(('violation', fn, n, 'when %s throws (allocation failure, std::length_error for an oversized request) '
                              'the array is left with %s although the storage is unchanged: %s. The object stays in use after the '
                              'exception (BufferWriter::write sizes its next resize from buffer->size() and so overwrites / '
                              'truncates what was written, readers and copies see a different extent)'
                              % (what, self.view_text(st), text), 'desynced-on-throw'))

    def exit_point(self, fn, st, n):
        ok, text = self.synced(st)
        if ok:
            return
        if ok is None:
            self.problems.append(('undecided', fn, n, 'state of the view on return: %s' % text, None))
            return
        self.problems.append(('violation', fn, n, 'returns with the view set by %s, but %s: the cached extent no longer describes the '
                              'storage (copies and moves re-point to dataBuf.size(), BufferWriter::write appends at size(), a '
                              'reader stops at size(): bytes appear or vanish)' % (self.view_text(st), text), 'desynced-on-exit'))

    def built_size(self, e, st, params):
        """number of elements of the vector built by `std::vector<T>(p, p + n)`, else None"""
        tu = self.tu
        x = tu.strip(e, casts=True)
        hops = 0
        while x is not None and hops < 5 and x.get('kind') in ('CXXBindTemporaryExpr', 'MaterializeTemporaryExpr', 'ExprWithCleanups',
                                                                'CXXFunctionalCastExpr') and tu.kids(x):
            x = tu.strip(tu.kids(x)[0], casts=True)
            hops += 1
        if x is None or x.get('kind') not in ('CXXTemporaryObjectExpr', 'CXXConstructExpr'):
            return None
        as_ = [a for a in tu.kids(x) if a.get('kind') != 'CXXDefaultArgExpr']
        if len(as_) == 1 and as_[0].get('kind') in ('CXXTemporaryObjectExpr', 'CXXConstructExpr', 'CXXBindTemporaryExpr',
                                                    'MaterializeTemporaryExpr'):
            return self.built_size(as_[0], st, params)
        if len(as_) != 2:
            return None
        lo, hi = tu.strip(as_[0], casts=True), tu.strip(as_[1], casts=True)
        if hi is not None and hi.get('kind') == 'BinaryOperator' and hi.get('opcode') == '+' and tu.ref_decl(lo) is not None and \
                tu.ref_decl(tu.kids(hi)[0]) == tu.ref_decl(lo):
            return self.evaluator(st, params).ev(tu.kids(hi)[1])
        return None

    def storage_iter(self, e):
        """'begin' / 'end' if e is dataBuf.begin() / dataBuf.end()"""
        tu = self.tu
        x = tu.strip(e, casts=True)
        hops = 0
        while x is not None and hops < 4 and x.get('kind') in ('CXXConstructExpr', 'MaterializeTemporaryExpr', 'CXXBindTemporaryExpr') \
                and len(tu.kids(x)) == 1:
            x = tu.strip(tu.kids(x)[0], casts=True)
            hops += 1
        if x is not None and x.get('kind') == 'CXXMemberCallExpr':
            sd, obj, args = tu.call_parts(x)
            nm = sd.get('q', '').split('::')[-1]
            if self.is_storage(obj) and not args and nm in ('begin', 'cbegin', 'end', 'cend'):
                return 'begin' if nm in ('begin', 'cbegin') else 'end'
        return None

    def begin_plus(self, e, ev):
        """n if e is dataBuf.begin() + n"""
        tu = self.tu
        x = tu.strip(e, casts=True)
        hops = 0
        while x is not None and hops < 4 and x.get('kind') in ('CXXConstructExpr', 'MaterializeTemporaryExpr', 'CXXBindTemporaryExpr') \
                and len(tu.kids(x)) == 1:
            x = tu.strip(tu.kids(x)[0], casts=True)
            hops += 1
        if x is not None and x.get('kind') == 'CXXOperatorCallExpr' and tu.sd(x).get('q', '').split('::')[-1] == 'operator+':
            ks = tu.kids(x)[1:]
            if len(ks) == 2 and self.storage_iter(ks[0]) == 'begin':
                return ev.ev(ks[1])
        if self.storage_iter(e) == 'begin':
            return Poly.const(0)
        return None

    def mutate(self, fn, st, n, name, args, params, throws):
        if throws:
            self.throw_point(fn, st, n, '`%s`' % self.tu.show(n))
        ev = self.evaluator(st, params)
        old = st.ssize
        st.gen += 1
        st.last = n
        if name == 'resize' and args:
            v = ev.ev(args[0])
            st.ssize = v if v is not None else self.fresh(st, 'n')
        elif name == 'clear':
            st.ssize = Poly.const(0)
        elif name in ('shrink_to_fit', 'reserve'):
            st.ssize = old
        elif name in ('push_back', 'emplace_back'):
            st.ssize = old + 1
        elif name == 'insert' and len(args) == 3 and self.storage_iter(args[0]) == 'end':
            v = ev.ev(args[1])               # insert(end(), count, value)
            st.ssize = old + v if v is not None else self.fresh(st, 'n')
        elif name == 'erase' and len(args) == 2 and self.storage_iter(args[1]) == 'end' and \
                self.begin_plus(args[0], ev) is not None:
            st.ssize = self.begin_plus(args[0], ev)      # erase(begin() + n, end())
        elif name == 'swap-empty':
            st.ssize = Poly.const(0)
        elif name == 'pop_back':
            st.ssize = old - 1
        else:
            v = self.built_size(args[0], st, params) if name == 'operator=' and args else None
            st.ssize = v if v is not None else self.fresh(st, 'n')

    def run(self, fn, st0, depth=0):
        """exit states of fn entered in st0; throw points are judged on the way"""
        tu = self.tu
        g = tu.cfg(fn)
        if g is None:
            raise Undecided('no CFG for %s' % fn['q'])
        if g.back_edges():
            raise Undecided('%s contains a loop' % short(fn['q']))
        params = {p_['id']: p_ for p_ in fn.get('params', [])}
        outs = []
        work = [(g.entry, 0, st0)]
        steps = 0
        while work:
            bid, start, st = work.pop()
            steps += 1
            if steps > 2000:
                raise Undecided('too many paths in %s' % short(fn['q']))
            blk = g.blocks[bid]
            done = False
            for ei, e in enumerate(blk.el):
                if ei < start:
                    continue
                if e[0] == 'I':
                    if e[3] == self.storage:
                        init = tu.node(e[1])
                        x = tu.strip(init, casts=True) if init is not None else None
                        st.gen += 1
                        st.last = init
                        has_args = x is not None and x.get('kind') != 'CXXDefaultInitExpr' and \
                            [a for a in tu.kids(x) if a.get('kind') != 'CXXDefaultArgExpr']
                        v = self.built_size(x, st, params) if has_args else None
                        st.ssize = v if v is not None else self.fresh(st, 'n') if has_args else Poly.const(0)
                    elif e[3] not in ('<base>',) and e[2] is None:
                        raise Undecided('delegating / unrecognised initialiser in %s' % short(fn['q']))
                    continue
                if e[0] != 'S':
                    continue
                n = tu.node(e[1])
                if n is None:
                    continue
                k = n.get('kind')
                if k == 'DeclStmt':
                    for vd in n.get('inner', ()):
                        if isinstance(vd, dict) and vd.get('kind') == 'VarDecl' and tu.kids(vd):
                            init = tu.kids(vd)[0]
                            ct = vd.get('type', {}).get('qualType', '')
                            if ct.rstrip().endswith('*') or ct.rstrip().endswith('* const'):
                                st.env[vd['id']] = self.ptr(init, st)
                            else:
                                v = self.evaluator(st, params).ev(init)
                                if v is not None:
                                    st.env[vd['id']] = v
                    continue
                if k == 'ReturnStmt':
                    outs.append(st)
                    done = True
                    break
                if k == 'CXXThrowExpr':
                    self.throw_point(fn, st, n, '`%s`' % tu.show(n))
                    done = True
                    break
                if k == 'CXXNewExpr' or (k in ('CXXTemporaryObjectExpr', 'CXXConstructExpr') and
                                         tu.sd(n).get('ct', '').replace('const ', '').startswith('std::vector<') and
                                         [a for a in tu.kids(n) if a.get('kind') != 'CXXDefaultArgExpr']):
                    src = tu.strip(tu.kids(n)[0], casts=True) if tu.kids(n) else None
                    moved = src is not None and src.get('kind') == 'CallExpr' and tu.sd(src).get('q') == 'std::move'
                    if not moved:
                        self.throw_point(fn, st, n, 'the allocation in `%s`' % tu.show(n))
                    continue
                if k == 'CallExpr' and tu.sd(n).get('q') in ('std::move', 'std::swap', 'std::exchange'):
                    if any(self.is_storage(a) for a in tu.call_parts(n)[2]):
                        self.mutate(fn, st, n, 'moved', [], params, False)
                    continue
                if k == 'CXXOperatorCallExpr':
                    sd, obj, args = tu.call_parts(n)
                    nm = sd.get('q', '').split('::')[-1]
                    if self.is_storage(obj):
                        if nm == 'operator=':
                            a0 = tu.strip(args[0], casts=True) if args else None
                            rvalue = a0 is not None and (
                                (a0.get('kind') == 'CallExpr' and tu.sd(a0).get('q') == 'std::move') or
                                a0.get('kind') in ('CXXTemporaryObjectExpr', 'CXXBindTemporaryExpr', 'CXXConstructExpr',
                                                   'MaterializeTemporaryExpr', 'CXXFunctionalCastExpr'))
                            self.mutate(fn, st, n, 'operator=', args, params, not rvalue)
                        elif nm not in STORAGE_QUERIES:
                            raise Undecided('`%s` on the storage member is not modelled' % tu.show(n))
                    continue
                if k == 'CXXMemberCallExpr':
                    sd, obj, args = tu.call_parts(n)
                    nm = sd.get('q', '').split('::')[-1]
                    if self.is_storage(obj):
                        if nm in STORAGE_QUERIES:
                            continue
                        if nm not in STORAGE_MUTATORS:
                            raise Undecided('`%s` on the storage member is not modelled' % tu.show(n))
                        self.mutate(fn, st, n, nm, args, params, STORAGE_MUTATORS[nm])
                        continue
                    if nm == 'swap' and len(args) == 1 and self.is_storage(args[0]):
                        o = tu.strip(obj, casts=True) if obj is not None else None
                        hops = 0
                        while o is not None and hops < 4 and o.get('kind') in ('MaterializeTemporaryExpr', 'CXXBindTemporaryExpr') \
                                and tu.kids(o):
                            o = tu.strip(tu.kids(o)[0], casts=True)
                            hops += 1
                        empty = o is not None and o.get('kind') in ('CXXTemporaryObjectExpr', 'CXXConstructExpr') and \
                            not [a for a in tu.kids(o) if a.get('kind') != 'CXXDefaultArgExpr']
                        self.mutate(fn, st, n, 'swap-empty' if empty else 'swap', [], params, False)
                        continue
                    if obj is not None and tu.is_this(tu.strip(obj, casts=True)):
                        if nm == 'setPtr' and len(args) == 2:
                            st.view = (self.ptr(args[0], st), self.evaluator(st, params).ev(args[1]), n)
                            continue
                        callee = tu.callee_fn(n)
                        if callee is not None and callee.get('rect') == self.bt and not callee.get('const'):
                            if tu.cfg(callee) is None or depth > 3:
                                raise Undecided('member %s called on this has no body in the facts' % short(callee['q']))
                            sub = st.copy()
                            saved_env = st.env
                            sub.env = {}
                            ev_ = self.evaluator(st, params)
                            for p_, a in zip(callee.get('params', []), args):
                                if p_['ct'].rstrip().endswith('*'):
                                    sub.env[p_['id']] = self.ptr(a, st)
                                else:
                                    v = ev_.ev(a)
                                    if v is not None:
                                        sub.env[p_['id']] = v
                            for s2 in self.run(callee, sub, depth + 1):
                                s2.env = dict(saved_env)
                                work.append((bid, ei + 1, s2))
                            done = True
                            break
                    continue
            if done:
                continue
            succ = list(blk.succ)
            if bid == g.exit or not any(s_ is not None for s_ in succ):
                outs.append(st)
                continue
            if blk.noret:
                self.throw_point(fn, st, tu.node(blk.el[-1][1]) if blk.el else None, 'a call that does not return')
                continue
            if blk.cond and len(succ) == 2:
                c = tu.strip(tu.node(blk.cond))
                while c is not None and c.get('kind') == 'BinaryOperator' and c.get('opcode') in ('&&', '||'):
                    c = tu.strip(tu.kids(c)[1])
                for idx, s2 in self.branches(c, st, params):
                    if succ[idx] is None:
                        continue
                    if succ[idx] == g.exit:
                        outs.append(s2)
                    else:
                        work.append((succ[idx], 0, s2))
                continue
            live = [s_ for s_ in succ if s_ is not None]
            if len(live) != 1:
                raise Undecided('multi-way branch in %s' % short(fn['q']))
            if live[0] == g.exit:
                outs.append(st)
            else:
                work.append((live[0], 0, st))
        return outs

    def branches(self, c, st, params):
        """[(successor index, state)]: 0 = condition true, 1 = false"""
        tu = self.tu
        x = tu.strip(c, casts=True)
        neg = False
        while x is not None and x.get('kind') == 'UnaryOperator' and x.get('opcode') == '!':
            neg = not neg
            x = tu.strip(tu.kids(x)[0], casts=True)
        rel = None
        if x is not None and x.get('kind') == 'CXXMemberCallExpr':
            sd, obj, args = tu.call_parts(x)
            if self.is_storage(obj) and sd.get('q', '').split('::')[-1] == 'empty':
                rel = [(st.ssize, '==')]
        if rel is None and x is not None and x.get('kind') == 'BinaryOperator' and x.get('opcode') in ('==', '!=') and \
                any(tu.is_this(k_) for k_ in tu.kids(x)):
            # self-assignment test: both outcomes are possible and say nothing about the sizes
            return [(0, st.copy()), (1, st.copy())]
        if rel is None:
            rel = self.evaluator(st, params).rel(x) if x is not None else None
        out = []
        if rel is None or len(rel) != 1:
            for idx in (0, 1):
                s2 = st.copy()
                s2.unsure = 'condition `%s` is not understood' % tu.show(c)
                out.append((idx, s2))
            return out
        for idx, r_ in ((1 if neg else 0, rel[0]), (0 if neg else 1, negate(rel[0]))):
            cv = r_[0].const_value()
            if cv is not None:
                holds = cv <= 0 if r_[1] == '<=' else cv == 0 if r_[1] == '==' else cv != 0
                if not holds:
                    continue
                out.append((idx, st.copy()))
                continue
            s2 = st.copy()
            s2.cons.append(r_)
            out.append((idx, s2))
        return out


def check_buffer_sync(ctx, tu):
    """R-C15-8: BufferWriter / BufferReader, the copy and move operations and every reader of the array work from the
    (pointer, size) pair cached in the AbstractArray base.  Every member of the buffer type that changes the storage must
    leave that pair describing the storage -- when it returns, and when the operation that changes the storage throws."""
    R = 'R-C15-8'
    ctx.describe(R, 'every non-const member of the array type behind BufferWriter::buffer leaves the cached (pointer, size) equal '
                 'to (storage.data(), storage.size()) on every return, and also at every point where growing the storage can '
                 'throw (the strong guarantee leaves the storage unchanged there)')
    bt_ = buffer_type(tu)
    if bt_ is None:
        ctx.broken('%s: type of BufferWriter::buffer not found in the record table' % R)
        return
    bt, rec, base, storage = bt_
    if base is None or storage is None:
        ctx.undecided(R, short(bt), 'the buffer type does not have the shape "AbstractArray base + one std::vector member"', '?')
        return
    fns = [f for f in tu.functions.values() if f.get('rect') == bt and tu.cfg(f) is not None and not f.get('implicit') and
           not f.get('defaulted') and not f.get('const') and not f.get('static') and '~' not in f['q'].split('::')[-1] and
           f.get('access') != 'private']        # private helpers are steps of the members that call them: followed there
    n = 0
    seen = set()
    for f in sorted(fns, key=lambda f_: (f_['q'], f_.get('fty', ''))):
        sig = (f['q'], f.get('fty'))
        if sig in seen:
            continue
        seen.add(sig)
        nm = f['q'].split('::')[-1]
        inst = '%s::%s %s' % (short(bt), nm, f.get('fty', ''))
        keyb = '%s|%s|%s::%s|' % (R, os.path.normpath(tu.fn_file(f)), short(rec['q']), nm)
        eng = SyncEngine(ctx, tu, bt, storage, R, keyb)
        st = SyncState()
        if f.get('ctor'):
            st.ssize = Poly.const(0)
            st.view = (('null',), Poly.const(0), None)
        else:
            st.ssize = Poly.atom(('sym', 'size0'))
            st.view = (('data', 0), st.ssize, None)
        try:
            for s2 in eng.run(f, st):
                eng.exit_point(f, s2, s2.view[2] if s2.view[2] is not None else s2.last)
        except Undecided as u:
            ctx.undecided(R, inst, str(u), tu.fn_loc(f))
            n += 1
            continue
        n += 1
        done = set()
        for kind, fn, node, text, detail in eng.problems:
            where = tu.loc(node) if node is not None else tu.fn_loc(fn)
            if (kind, detail, where) in done:
                continue
            done.add((kind, detail, where))
            if kind == 'violation':
                ctx.violation(R, inst, text, where, key=keyb + detail)
            else:
                ctx.undecided(R, inst, text, where)
        if not eng.problems:
            ctx.ok(R, inst, 'on every return, and wherever growing `%s` can throw, the view is (%s.data(), %s.size())'
                   % (storage, storage, storage), tu.fn_loc(f))
    ctx.floor(R, n, 1, 'storage-changing members of the BufferWriter buffer type (driver probe rkverif::c15x::sync_owned)')



def check_view_lifetime(ctx, tu):
    """R-C15-7: the view handed out by FixedBufferWriter::getWrittenView caches a pointer into the writer's storage; it
    must keep that *allocation* alive, not merely the array object that currently owns it (which can be re-seated)"""
    R = 'R-C15-7'
    ctx.describe(R, 'the view type returned by getWrittenView() owns (shares) the allocation its cached pointer points into: a '
                 'member of the allocation-owning type, not a handle to a re-assignable owner object')
    fs = find_fn(tu, NET + 'FixedBufferWriter::getWrittenView')
    if not fs:
        ctx.broken('%s: anchor FixedBufferWriter::getWrittenView not found' % R)
        return
    m = re.search(r'shared_ptr<(rkcommon::utility::\w+<[^()]*?>)>\s*\(', fs[0]['fty'].replace('utility::FixedArray<uint8_t>::View',
                                                                                            'rkcommon::utility::FixedArrayView<unsigned char>'))
    vt = None
    for r in tu.records.values():
        if r.get('tmpl') == UTIL + 'FixedArrayView' and r.get('targs') and r['targs'][0].get('t') == 'unsigned char':
            vt = r
    if vt is None:
        ctx.broken('%s: record FixedArrayView<unsigned char> not found' % R)
        return
    owner = tu.records_by_type.get(UTIL + 'FixedArray<unsigned char>')
    inst = 'FixedArrayView<unsigned char>'
    file = 'rkcommon/utility/FixedArrayView.h'
    key = '%s|%s|FixedArrayView|' % (R, file)
    if owner is None:
        ctx.undecided(R, inst, 'record FixedArray<unsigned char> not in the facts', file)
        return
    alloc_fields = [fd for fd in owner['fields'] if re.match(r'^std::(shared_ptr|unique_ptr)<unsigned char', fd['ct'])]
    reseat = [f for f in tu.functions.values() if f.get('rec') == UTIL + 'FixedArray' and f['q'].split('::')[-1] == 'operator=']
    pins, handles, other, copies = [], [], [], []
    for fd in vt['fields']:
        ct = fd['ct'].replace('const ', '')
        if ct == UTIL + 'FixedArray<unsigned char>' and alloc_fields:
            # a FixedArray held by value shares the allocation only if copying a FixedArray copies its shared_ptr
            cc = owner.get('copy_ctor', {})
            if not cc.get('user'):
                pins.append(fd)
            else:
                cfs = [f_ for f_ in tu.functions.values() if f_.get('rect') == owner['type'] and f_.get('ctor') == 'copy'
                       and tu.body(f_) is not None]
                deep = None
                for f_ in cfs:
                    g_ = tu.cfg(f_)
                    allocs_ = [x for x in tu.walk(tu.body(f_)) if x.get('kind') == 'CXXNewExpr']
                    for b_ in (g_.blocks.values() if g_ else ()):
                        for e_ in b_.el:
                            if e_[0] == 'I':
                                init_ = tu.node(e_[1])
                                if e_[3] == '<base>' and init_ is not None and init_.get('kind') == 'CXXConstructExpr' and \
                                        tu.sd(init_).get('rec') == UTIL + 'FixedArray':
                                    cal = tu.callee_fn(init_)
                                    if cal is not None and cal.get('ctor') == 'other' and \
                                            any(p_['ct'] in ('unsigned long',) for p_ in cal.get('params', [])):
                                        allocs_.append(init_)      # delegates to a constructor that allocates size elements
                                if init_ is not None and any(y.get('kind') == 'CXXNewExpr' for y in tu.walk(init_)):
                                    allocs_.append(init_)
                    shares = any(e_[0] == 'I' and e_[2] is not None and tu.node(e_[1]) is not None and
                                 any(y.get('kind') == 'MemberExpr' and y.get('name') == alloc_fields[0]['name'] for y in tu.walk(tu.node(e_[1])))
                                 for b_ in (g_.blocks.values() if g_ else ()) for e_ in b_.el)
                    deep = (f_, allocs_) if allocs_ and not shares else deep
                if deep is not None:
                    copies.append((fd, deep[0]))
                elif not cfs:
                    other.append(fd)
                else:
                    pins.append(fd) if all(
                        any(y.get('kind') == 'MemberExpr' and y.get('name') == alloc_fields[0]['name'] for y in tu.walk(tu.body(f_)))
                        or True for f_ in cfs) and deep is None and any(
                        any(e_[0] == 'I' and e_[3] == alloc_fields[0]['name'] for e_ in b_.el) for f_ in cfs for b_ in tu.cfg(f_).blocks.values()) \
                        else other.append(fd)
        elif re.match(r'^std::shared_ptr<unsigned char', ct):
            pins.append(fd)
        elif re.match(r'^(std::(shared_ptr|weak_ptr)<)?rkcommon::utility::FixedArray<unsigned char>\s*[>*&]', ct):
            handles.append(fd)
        else:
            other.append(fd)
    # the pinning member must be initialised as a copy of the viewed array (not as a freshly allocated one)
    for fd in list(pins):
        if fd['ct'].replace('const ', '') != UTIL + 'FixedArray<unsigned char>':
            continue
        for vf in tu.functions.values():
            if vf.get('rect') != vt['type'] or vf.get('ctor') != 'other' or tu.cfg(vf) is None:
                continue
            for b_ in tu.cfg(vf).blocks.values():
                for e_ in b_.el:
                    if e_[0] == 'I' and e_[3] == fd['name']:
                        init_ = tu.node(e_[1])
                        cal = tu.callee_fn(init_) if init_ is not None and init_.get('kind') == 'CXXConstructExpr' else None
                        if cal is not None and cal.get('ctor') == 'other' and fd in pins:
                            pins.remove(fd)
                            copies.append((fd, vf))
    if copies and not pins:
        fd, cf = copies[0]
        ctx.violation(R, inst, 'the view keeps `%s` (a FixedArray by value), but it is filled by %s, which allocates new '
                      'storage and copies the bytes: the view returned by getWrittenView() is a snapshot of the buffer, not a view of '
                      'it - data written through reserve() / write() afterwards is not seen through it, and its data() is not the '
                      'writer\'s memory' % (fd['name'], ('the copy constructor of FixedArray (%s)' if cf.get('ctor') == 'copy' else
                                                          'a constructor call in %s that does not copy the viewed array') % tu.fn_loc(cf)),
                      tu.fn_loc(cf), key=key + 'view-is-a-snapshot')
    elif pins:
        ctx.ok(R, inst, 'member `%s` (%s) shares the allocation the view points into' % (pins[0]['name'], pins[0]['ct']), file)
    elif handles and (reseat or owner.get('copy_assign', {}).get('has')):
        ctx.violation(R, inst, 'the view keeps only `%s` (%s), a handle to the FixedArray *object*; FixedArray can be assigned to '
                      '(operator= replaces its allocation), after which the pointer cached in a view obtained earlier from '
                      'getWrittenView() refers to freed memory' % (handles[0]['name'], handles[0]['ct']), file,
                      key=key + 'view-pins-owner-not-allocation')
    else:
        ctx.undecided(R, inst, 'no member of the view is recognised as keeping the viewed allocation alive (members: %s)'
                      % ', '.join('%s %s' % (fd['ct'], fd['name']) for fd in vt['fields']), file)


def trivially_copyable_witness(ctx, tu, types):
    """set of type names that are NOT trivially copyable, decided by the compiler on a generated unit of
    static_asserts (one per line); None if the unit cannot be compiled for another reason"""
    if not types:
        return set()
    path = os.path.join(ctx.front.gen, 'c15_trivial_%d.cpp' % os.getpid())
    lines = ['#include "drivers/c15_streams.cpp"', '#include <type_traits>']
    where = {}
    for t in types:
        lines.append('static_assert(std::is_trivially_copyable<%s>::value, "raw image");' % t)
        where[len(lines)] = t
    with open(path, 'w') as fh:
        fh.write('\n'.join(lines) + '\n')
    try:
        rc, err = ctx.front.compile_check(path)
    finally:
        try:
            os.unlink(path)
        except OSError:
            pass
    bad = set()
    other = False
    for m in re.finditer(r'^(\S+?):(\d+):\d+: error', err, re.M):
        if os.path.abspath(m.group(1)) == path and int(m.group(2)) in where:
            bad.add(where[int(m.group(2))])
        else:
            other = True
    if other or (rc != 0 and not bad):
        return None
    return bad


def run(ctx):
    ctx.assume('cursor + size does not wrap around (sizes below 2^63); the public members cursor/buffer are only changed '
               'by the analysed member functions; std::vector::resize preserves the existing prefix')
    ctx.assume('a no-argument size query of the stream that a reader compares a length with (remaining()) is an upper bound of the '
               'bytes that can still be read')
    ctx.assume('std::vector / std::string / the array wrappers store their elements contiguously (element-wise transfer of '
               'trivially copyable elements equals one block transfer)')
    units = ['rkcommon/networking/DataStreaming.cpp', 'drivers/c15_streams.cpp']
    parsed = ctx.front.parse_many([dict(unit=u, config='TBB') for u in units])
    tus = dict(zip(units, parsed))
    check_buffers(ctx, tus)
    check_signatures(ctx, tus['drivers/c15_streams.cpp'], tus['rkcommon/networking/DataStreaming.cpp'])
    check_buffer_moves(ctx, tus['drivers/c15_streams.cpp'])
    check_buffer_sync(ctx, tus['drivers/c15_streams.cpp'])
    check_view_lifetime(ctx, tus['rkcommon/networking/DataStreaming.cpp'])
    if ctx.tier == 'thorough':
        more = ctx.front.parse_many([dict(unit=u, config='DEBUG', std='gnu++17') for u in units])
        tus2 = dict(zip(units, more))
        check_buffers(ctx, tus2)
        check_signatures(ctx, tus2['drivers/c15_streams.cpp'], tus2['rkcommon/networking/DataStreaming.cpp'])
        check_buffer_moves(ctx, tus2['drivers/c15_streams.cpp'])
        check_buffer_sync(ctx, tus2['drivers/c15_streams.cpp'])
        check_view_lifetime(ctx, tus2['rkcommon/networking/DataStreaming.cpp'])
    from rkstatic import selftest
    selftest.run(ctx)
