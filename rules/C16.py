"""C16 - XML reading is total and memory-safe (the structural clauses of the property).

  R-C16-1  cursor safety, by interprocedural abstract interpretation over the CFGs of the parser
           (rkcommon/xml/XML.cpp, entry parseXML): for every byte string in a NUL-terminated buffer the
           cursor is never advanced past the terminating NUL, no byte beyond it is read, and no byte
           before the buffer is read.
           Domain per cursor variable (char* / char*& / const char*):
             K  = number of leading bytes known to be non-NUL  (reads s[j] need j <= K, ++s needs K >= 1)
             A  = a byte that fails isspace() is known to exist in the buffer before the cursor
                  (justifies the backward scan `while (isspace(end[-1])) --end`)
             N0 = s[0] known to be neither NUL nor whitespace;  B1 = s[-1] known to be whitespace
           char-valued variables carry Z / NZ / NS (zero, non-zero, non-zero-non-space).
           Branch edges refine the state (`*s == c`, `*s != 0`, isalpha(*s), user predicates such as
           isWhite through their own summary, `!`, `&&`, `||` through the values recorded along the
           path).  Callees are summarised per abstract entry state, with a fixpoint for parseNode's
           recursion.
  R-C16-2  every loop iteration of a parsing function consumes input (no hang): on every back edge
           the cursor has moved since the loop head was last visited.
  R-C16-3  readXML hands the parser a buffer of numBytes+1 zero-initialised bytes, reads at most
           numBytes into it, and every `throw` reachable from readXML throws std::runtime_error.
  R-C16-4  pure std::string& output parameters are assigned on every successful return.
  R-C16-5  [begin,end) cursor pairs are ordered wherever they are used as a range.
  R-C16-6  no function with a non-throwing exception specification (noexcept, destructor) on the call graph of readXML can
           reach a throw-expression (a parse error must not become std::terminate).
  R-C16-7  no mutable static / thread-local variable read by the parser is left changed when readXML returns or throws
           (integer counters: CFG exploration of the net effect with callee summaries; constructor/destructor pairs of
           automatic objects are exception-safe, a plain increment ... decrement around a throwing call is not).
           R-C16-6/7 have no instance on the pinned tree; drivers/c16_positive.cpp holds known-bad examples that must be
           reported on every run.
  R-C16-8  whitespace tolerance: at the delimiters of a tag head / header (=, opening quote, /, >, ?>) the cursor is known not
           to stand on one of the parser's whitespace bytes (facts of the R-C16-1 interpreter; `!isWhite(*s)` is learned through
           the predicate's accepted byte set).  Obligations are a frozen table (function, delimiter, kind of site) read off the
           pinned tree; a site that moved is looked for in the other functions, a site that vanished is undecided.
  R-C16-9  writes through buffers the parser allocates itself (char a[N], new char[n]) stay inside them: index < size and
           length <= size from linear forms and the comparisons that guard the path (CFG exploration, ?: arms tracked).
"""
import re

LEVEL = 'proof'
EXPLANATION = (
    "Abstract interpretation (non-NUL look-ahead domain with callee summaries and a recursion fixpoint) over the "
    "clang CFGs of every function reachable from parseXML proves, for all inputs at once, the memory-safety clause: "
    "given a NUL-terminated buffer the cursor never passes the terminator and no byte outside the buffer is read; a "
    "loop-progress rule proves that every scanning loop consumes input; a call-graph rule checks that every throw "
    "reachable from readXML is std::runtime_error, that none is thrown underneath a noexcept function or destructor, that no "
    "static/thread-local parser state survives a call, and that the buffer really is NUL-terminated. Not decided: "
    "faithfulness of the returned tree on the supported subset (value level), recursion depth / stack use, "
    "exceptions thrown by the standard library (bad_alloc).")

CAP = 8
SPACE = {9, 10, 11, 12, 13, 32}
CTYPE_FALSE_AT_0 = {'isalpha', 'isdigit', 'isalnum', 'isspace', 'isblank', 'isprint', 'isgraph', 'ispunct',
                    'isupper', 'islower', 'isxdigit'}
CTYPE_NONSPACE = {'isalpha', 'isdigit', 'isalnum', 'isgraph', 'ispunct', 'isupper', 'islower', 'isxdigit'}
DELIMS = {ord(x) for x in '>/=?"\''}
WS4 = {9, 10, 13, 32}
CURSOR_TYPES = {'char *', 'char *&', 'const char *', 'const char *&', 'char *const', 'const char *const'}
CHAR_TYPES = {'char', 'const char'}
XML_FILE = 'rkcommon/xml/XML.cpp'


def fz(d):
    return tuple(sorted(d.items(), key=lambda kv: repr(kv[0])))


class Engine:
    def __init__(self, tu, ctx):
        self.tu = tu
        self.ctx = ctx
        self.memo = {}          # (fnid, entry) -> set of (exit params, ret, adv)
        self.inprog = {}
        self.findings = {}      # key -> dict
        self.undecided = {}
        self.summaries = 0
        self.steps = 0
        self.pred_cache = {}
        self.delims = {}        # (fn id, node id, delimiter byte) -> {whitespace excluded?}
        self.cur_fn = None

    def delim_site(self, f, node, c, st, v, kind='cmp'):
        """remember whether the byte compared with the structural delimiter c is known not to be one of the parser's whitespace bytes"""
        K, A, N0, B1, NE = st[('c', v)]
        tol = bool(N0) or WS4 <= set(NE)
        self.delims.setdefault((f['id'], node['id'], c, kind), set()).add(tol)

    # ------------------------------------------------------------------ classification of variables
    def var_kind(self, ct):
        if ct in CURSOR_TYPES:
            return 'cur'
        if ct in CHAR_TYPES:
            return 'chr'
        return None

    def decl_of(self, e):
        e = self.tu.strip(e, casts=True)
        if e is not None and e.get('kind') == 'DeclRefExpr':
            return e.get('referencedDecl', {}).get('id'), e.get('referencedDecl', {}).get('name')
        if e is not None and e.get('kind') == 'MemberExpr' and e.get('referencedMemberDecl') in self.member_cursors():
            base = self.tu.strip(self.tu.kids(e)[0], casts=True) if self.tu.kids(e) else None
            if base is not None and base.get('kind') == 'CXXThisExpr':
                # the cursor kept in a data member of a parser object (one object per parse): identified by the field
                self.names.setdefault(e['referencedMemberDecl'], 'this->' + (e.get('name') or '?'))
                return e['referencedMemberDecl'], 'this->' + (e.get('name') or '?')
        return None, None

    def member_cursors(self):
        """field id -> record id for the data members of cursor type of the records defined in the unit's own file"""
        if not hasattr(self, '_mc'):
            self._mc = {}
            for r in self.tu.records.values():
                for fl in r.get('fields', []):
                    if fl.get('ct') in CURSOR_TYPES and not r.get('lambda') and 'xml' in r.get('q', ''):
                        self._mc[fl['id']] = r['id']
        return self._mc

    def cursor_fields(self, f):
        rid = f.get('recid')
        return [fid for fid, r in self.member_cursors().items() if r == rid] if rid else []

    def read_of(self, e, st):
        """(var id, index) if e reads a byte through a tracked cursor"""
        tu = self.tu
        e = tu.strip(e, casts=True)
        if e is None:
            return None
        k = e.get('kind')
        if k == 'UnaryOperator' and e.get('opcode') == '*':
            v, _ = self.decl_of(tu.kids(e)[0])
            if v is not None and ('c', v) in st:
                return (v, 0)
        if k == 'ArraySubscriptExpr':
            ks = tu.kids(e)
            v, _ = self.decl_of(ks[0])
            if v is not None and ('c', v) in st:
                cv = tu.sd(tu.strip(ks[1], casts=True)).get('cv')
                if cv is None:
                    cv = tu.sd(ks[1]).get('cv')
                if cv is None:
                    return (v, None)
                return (v, int(cv))
        if k == 'DeclRefExpr':
            # a const char local initialised from `*s` / `s[j]` stands for that byte as long as the cursor is not moved in this function
            d = tu.node(e.get('referencedDecl', {}).get('id'))
            if d is not None and d.get('kind') == 'VarDecl' and tu.kids(d) and d.get('type', {}).get('qualType', '') in ('const char',):
                r = self.read_of(tu.kids(d)[-1], st)
                if r is not None:
                    fn = tu.enclosing_fn(d)
                    f = self.tu.functions.get(fn['id']) if fn else None
                    if f is not None and not self.param_written(f, r[0]):
                        return r
        return None

    def const_of(self, e):
        e0 = self.tu.strip(e, casts=True)
        for x in (e, e0):
            if x is None:
                continue
            cv = self.tu.sd(x).get('cv')
            if cv is not None:
                return int(cv)
        return None

    def int_of(self, e, st):
        """integer value of an expression: a constant, or an integer local whose value is known on this path (`len = strlen(word)` for a
        word of known exact length)"""
        c = self.const_of(e)
        if c is not None:
            return c
        d = self.tu.ref_decl(e) if e is not None else None
        if d is not None and ('n', d) in st:
            return st[('n', d)]
        return None

    def span_to_cursor(self, e, v, st, depth=0):
        """e is `hi - v` (directly or through a local initialised with it) for a cursor `hi` tracked on this path"""
        tu = self.tu
        e = tu.strip(e, casts=True)
        if e is None or depth > 3:
            return False
        if e.get('kind') == 'BinaryOperator' and e.get('opcode') == '-':
            l, r = tu.kids(e)
            hi, _ = self.decl_of(l)
            lo, _ = self.decl_of(r)
            return hi is not None and lo == v and ('c', hi) in st
        if e.get('kind') == 'DeclRefExpr':
            d = tu.nodes.get(e.get('referencedDecl', {}).get('id'))
            if d is not None and d.get('kind') == 'VarDecl' and tu.kids(d) and 'const' in d.get('type', {}).get('qualType', ''):
                return self.span_to_cursor(tu.kids(d)[-1], v, st, depth + 1)
        return False

    def exact_len(self, e, st):
        """exact length of the NUL-terminated string an expression designates: a literal, or a cursor bound to one that has not moved"""
        lb = self.lit_bytes(e)
        if lb is not None and 0 not in lb:
            return len(lb)
        v, _ = self.decl_of(e)
        if v is not None and ('len', v) in st:
            return st[('len', v)]
        return None

    def char_class_of(self, e, st, depth=0):
        """abstract class of a char-valued expression"""
        e1 = self.tu.strip(e, casts=True)
        if e1 is not None and e1.get('kind') == 'ConditionalOperator' and depth < 4:
            cnd, a, b = self.tu.kids(e1)[:3]
            v = self.ev(cnd, st)
            ca = self.char_class_of(a, st, depth + 1)
            cb = self.char_class_of(b, st, depth + 1)
            if v is True:
                return ca
            if v is False:
                return cb
            if ca == cb:
                return ca
            if {ca, cb} <= {'NZ', 'NS'}:
                return 'NZ'
            return '?'
        c = self.const_of(e)
        if c is not None:
            c &= 0xff
            return 'Z' if c == 0 else ('NZ' if c in SPACE else 'NS')
        r = self.read_of(e, st)
        if r is not None and r[1] is not None:
            K, A, N0, B1, NE = st[('c', r[0])]
            if r[1] == 0 and N0:
                return 'NS'
            if 0 <= r[1] < K:
                return 'NZ'
            return '?'
        v, _ = self.decl_of(e)
        if v is not None and ('h', v) in st:
            return st[('h', v)]
        return '?'

    # ------------------------------------------------------------------ three-valued evaluation
    def vals(self, st):
        return dict(st.get('$vals', ()))

    def ev(self, e, st, depth=0):
        tu = self.tu
        e = tu.strip(e, casts=True)
        if e is None or depth > 12:
            return None
        vals = self.vals(st)
        if e['id'] in vals:
            return vals[e['id']]
        k = e.get('kind')
        if k == 'CXXBoolLiteralExpr':
            return bool(e.get('value'))
        if k == 'DeclRefExpr' and ('b', e.get('referencedDecl', {}).get('id')) in st:
            return st[('b', e['referencedDecl']['id'])]
        if k == 'CXXMemberCallExpr' and tu.sd(e).get('q', '').split('::')[-1] == 'empty' and 'basic_string' in tu.sd(e).get('q', ''):
            obj = tu.call_parts(e)[1]
            d = tu.ref_decl(obj) if obj is not None else None
            if d is not None and ('s', d) in st:
                return st[('s', d)] == 'S0'
            return None
        if k == 'UnaryOperator' and e.get('opcode') == '!':
            v = self.ev(tu.kids(e)[0], st, depth + 1)
            return None if v is None else (not v)
        if k == 'BinaryOperator' and e.get('opcode') in ('&&', '||'):
            a = self.ev(tu.kids(e)[0], st, depth + 1)
            b = self.ev(tu.kids(e)[1], st, depth + 1)
            if e['opcode'] == '&&':
                if a is False or b is False:
                    return False
                return True if (a is True and b is True) else None
            if a is True or b is True:
                return True
            return False if (a is False and b is False) else None
        if k == 'BinaryOperator' and e.get('opcode') in ('==', '!=', '<', '>', '<=', '>='):
            ks = tu.kids(e)
            a_, _ = self.decl_of(ks[0])
            b_, _ = self.decl_of(ks[1])
            if a_ is not None and b_ is not None and a_ != b_ and ('c', a_) in st and ('c', b_) in st:
                op = e['opcode']
                lt_ab, lt_ba = ('lt', a_, b_) in st, ('lt', b_, a_) in st
                le_ab, le_ba = lt_ab or ('le', a_, b_) in st, lt_ba or ('le', b_, a_) in st
                if op in ('==', '!=') and (lt_ab or lt_ba):
                    return op == '!='
                if op == '<' and (lt_ab or le_ba):
                    return lt_ab
                if op == '>' and (lt_ba or le_ab):
                    return lt_ba
                if op == '<=' and (le_ab or lt_ba):
                    return le_ab
                if op == '>=' and (le_ba or lt_ab):
                    return le_ba
        if k == 'BinaryOperator' and e.get('opcode') in ('==', '!='):
            ks = tu.kids(e)
            for L, R in ((ks[0], ks[1]), (ks[1], ks[0])):
                cl = self.char_class_of(L, st)
                c = self.const_of(R)
                if c is None:
                    continue
                c &= 0xff
                eq = None
                r0 = self.read_of(L, st)
                if r0 is not None and r0[1] == 0 and c in DELIMS and self.cur_fn is not None:
                    self.delim_site(self.cur_fn, e, c, st, r0[0])
                if r0 is not None and r0[1] == 0 and c in st[('c', r0[0])][4]:
                    eq = False
                if cl == 'Z':
                    eq = (c == 0)
                elif cl == 'NZ' and c == 0:
                    eq = False
                elif cl == 'NS' and (c == 0 or c in SPACE):
                    eq = False
                if eq is not None:
                    return eq if e['opcode'] == '==' else (not eq)
            return None
        if k in ('IntegerLiteral', 'CharacterLiteral'):
            c = self.const_of(e)
            return None if c is None else (c != 0)
        if k == 'CallExpr':
            q = tu.sd(e).get('q', '')
            args = tu.call_parts(e)[2]
            if q in CTYPE_FALSE_AT_0 and args:
                if self.char_class_of(args[0], st) == 'Z':
                    return False
            return None
        # a char value in boolean context
        cl = self.char_class_of(e, st)
        if cl == 'Z':
            return False
        if cl in ('NZ', 'NS'):
            return True
        return None

    def learn_nonzero(self, st, r, nonspace=False, space=False):
        v, j = r
        if j is None:
            return st
        K, A, N0, B1, NE = st[('c', v)]
        st = dict(st)
        if j >= 0 and K >= j:
            K = min(max(K, j + 1), CAP)
        if j == 0 and nonspace:
            N0 = 1
        if j == -1 and space:
            B1 = 1
        st[('c', v)] = (K, A, N0, B1, NE)
        return st

    def learn_not(self, st, r, c):
        """s[0] is known to differ from the constant byte c"""
        v, j = r
        if j != 0:
            return st
        K, A, N0, B1, NE = st[('c', v)]
        st = dict(st)
        st[('c', v)] = (K, A, N0, B1, tuple(sorted(set(NE) | {c & 0xff})))
        return st

    def predicate_false_at_zero(self, f):
        """does a user predicate bool p(char) return false whenever its argument is NUL?"""
        if f['id'] in self.pred_cache:
            return self.pred_cache[f['id']]
        ok = False
        ps = f.get('params', [])
        ts = self.pred_true_set(f)
        if ts is not None:
            ok = 0 not in ts
        elif len(ps) == 1 and self.var_kind(ps[0]['ct']) == 'chr':
            outs = self.summ(f, fz({('h', ps[0]['id']): 'Z'}))
            ok = bool(outs) and all(ret is False for (_, ret, _) in outs)
        self.pred_cache[f['id']] = ok
        return ok

    def lit_bytes(self, e, depth=0):
        """bytes (without the terminator) of a string constant: a literal, or a const pointer / const array variable initialised with one"""
        tu = self.tu
        e = tu.strip(e, casts=True)
        if e is None or depth > 3:
            return None
        if e.get('kind') == 'StringLiteral':
            try:
                import ast as pyast
                v = pyast.literal_eval(e.get('value', '""'))
                return tuple(ord(c) & 0xff for c in v) if isinstance(v, str) else tuple(v)
            except Exception:
                return None
        if e.get('kind') == 'DeclRefExpr':
            d = tu.node(e.get('referencedDecl', {}).get('id'))
            if d is not None and d.get('kind') == 'VarDecl' and tu.kids(d):
                qt = d.get('type', {}).get('qualType', '')
                if re.match(r'^const char \*const$', qt) or re.match(r'^const char ?\[\d*\]$', qt) or (d.get('constexpr') and 'char' in qt):
                    init = [k_ for k_ in tu.kids(d) if not k_.get('kind', '').endswith('Comment')]
                    return self.lit_bytes(init[-1], depth + 1) if init else None
        return None

    def learn_equal_prefix(self, st, call):
        """memcmp / strncmp(a, b, n) == 0 with one operand a string of exact length m >= n (no NUL among its first n bytes): the first n
        bytes of the other operand are non-NUL"""
        args = self.tu.call_parts(call)[2]
        if len(args) != 3:
            return st
        n = self.int_of(args[2], st)
        if n is None:
            return st
        for a, b in ((args[0], args[1]), (args[1], args[0])):
            m = self.exact_len(b, st)
            v, _ = self.decl_of(a)
            if m is not None and n <= m and v is not None and ('c', v) in st:
                K, A, N0, B1, NE = st[('c', v)]
                st = dict(st)
                st[('c', v)] = (max(K, min(n, CAP)), A, N0 if n == 0 else 0, B1, NE if n == 0 else ())
                return st
        return st

    SEARCH_FNS = ('strstr', 'strchr', 'strrchr', 'strpbrk', 'memchr', 'strcasestr')

    def search_result(self, st, v, rhs):
        """`v = strstr(src, needle)` and relatives: the result is NULL when nothing is found; otherwise it points at the match inside the
        string src points into (K = length of the literal needle).  Returns True if rhs has this form."""
        tu = self.tu
        r = tu.strip(rhs, casts=True)
        if r is None or r.get('kind') != 'CallExpr' or tu.sd(r).get('q', '').split('::')[-1] not in self.SEARCH_FNS:
            return False
        q = tu.sd(r).get('q', '').split('::')[-1]
        args = tu.call_parts(r)[2]
        src, _ = self.decl_of(args[0]) if args else (None, None)
        k = 0
        first = None
        if q in ('strstr', 'strcasestr') and len(args) == 2:
            lb = self.lit_bytes(args[1])
            k = min(len(lb), CAP) if lb is not None and 0 not in lb else 0
            first = lb[0] if lb and q == 'strstr' else None
        elif q in ('strchr', 'strrchr', 'memchr') and len(args) >= 2:
            c = self.const_of(args[1])
            k = 1 if c not in (None, 0) else 0
            first = (c & 0xff) if k else None
        elif q == 'strpbrk':
            k = 1
        ne = tuple(sorted(b for b in (9, 10, 13, 32) if b != first)) if first is not None else ()
        anchored = 0
        if src is not None and ('c', src) in st:
            anchored = st[('c', src)][1]
        st[('c', v)] = (k, anchored, 0, 0, ne)
        self.le_forget(st, v)
        if src is not None and ('c', src) in st and src != v:
            st[('le', src, v)] = 1
        st[('null', v)] = tu.show(r)[:40]
        return True

    def need_nonnull(self, f, st, v, node, what):
        if ('null', v) in st:
            nm = self.names.get(v, '?')
            self.finding('R-C16-1', f, 'null-cursor:%s' % nm,
                         '%s uses `%s`, the result of `%s`, which is a null pointer when nothing was found: no test for null lies between the '
                         'search and this use, so a file without the searched text makes the parser dereference null (a crash, not a '
                         'std::runtime_error)' % (what, nm, st[('null', v)]), node)
            st.pop(('null', v), None)          # report once per path

    def str_class(self, e, st, depth=0):
        """'S0' (empty) / 'S1' (non-empty) / None for a std::string-valued expression: an empty literal or default-constructed string,
        a string variable whose class is known, or a string built from a cursor range [a, b) (non-empty when a < b is known; the
        builders of this file - makeString, the range constructor - return exactly the bytes of the range)"""
        tu = self.tu
        e = tu.strip(e, casts=True)
        for _ in range(8):
            if e is not None and e.get('kind') in ('ExprWithCleanups', 'MaterializeTemporaryExpr', 'CXXBindTemporaryExpr', 'CXXFunctionalCastExpr') and tu.kids(e):
                e = tu.strip(tu.kids(e)[-1], casts=True)
            else:
                break
        if e is None or depth > 4:
            return None
        k = e.get('kind')
        if k == 'StringLiteral':
            return 'S0' if self.strlen(e) == 0 else 'S1'
        if k == 'DeclRefExpr':
            d = tu.ref_decl(e)
            return st.get(('s', d))
        vals = self.vals(st)
        if e.get('id') in vals and vals[e['id']] in ('S0', 'S1'):
            return vals[e['id']]
        if k in ('CXXConstructExpr', 'CXXTemporaryObjectExpr'):
            args = [a for a in tu.kids(e) if a.get('kind') != 'CXXDefaultArgExpr']
            if not args:
                return 'S0'
            if len(args) == 1:
                return self.str_class(args[0], st, depth + 1)
        else:
            args = tu.call_parts(e)[2] if k == 'CallExpr' else []
        if k in ('CXXConstructExpr', 'CXXTemporaryObjectExpr', 'CallExpr') and len(args) == 2:
            a, _ = self.decl_of(args[0])
            b, _ = self.decl_of(args[1])
            if a is not None and b is not None and ('c', a) in st and ('c', b) in st:
                if a == b:
                    return 'S0'
                if ('lt', a, b) in st:
                    return 'S1'
        if k == 'CallExpr' and tu.sd(e).get('q') == 'std::move' and len(tu.kids(e)) == 2:
            return self.str_class(tu.kids(e)[1], st, depth + 1)
        return None

    def nul_true_note(self, f):
        """names the character predicates called in f that are true for the NUL byte (they cannot justify an advance)"""
        tu = self.tu
        names = []
        for x in tu.walk(tu.body(f) or {}):
            if x.get('kind') == 'CallExpr':
                cf = tu.callee_fn(x)
                if cf is not None and tu.body(cf) is not None:
                    ts = self.pred_true_set(cf)
                    if ts is not None and 0 in ts and cf['q'].split('::')[-1] not in names:
                        names.append(cf['q'].split('::')[-1])
        if not names:
            return ''
        return ' (note: the predicate %s is also true for the NUL byte - strchr() finds the terminator of its set - so a successful test ' \
               'does not show that the cursor stands on a byte of the file)' % ', '.join('`%s`' % x for x in names)

    def pred_true_set(self, f):
        """set of bytes for which a user predicate `bool p(char c)` is true, else None.  Forms: `c == k1 || c == k2 ...`;
        `strchr(SET, c) != nullptr` (also true for the NUL byte: strchr finds the terminator of SET); `memchr(SET, c, n) != nullptr`"""
        key = ('trueset', f['id'])
        if key in self.pred_cache:
            return self.pred_cache[key]
        tu = self.tu
        res = None
        ps0 = f.get('params', [])
        body0 = tu.body(f)
        if len(ps0) == 1 and self.var_kind(ps0[0]['ct']) == 'chr' and body0 is not None:
            ks0 = tu.kids(body0)
            if len(ks0) == 1 and ks0[0].get('kind') == 'ReturnStmt' and tu.kids(ks0[0]):
                x = tu.strip(tu.kids(ks0[0])[0], casts=True)
                neg = False
                if x is not None and x.get('kind') == 'BinaryOperator' and x.get('opcode') in ('!=', '=='):
                    L, R = tu.kids(x)
                    for a, b in ((L, R), (R, L)):
                        b0 = tu.strip(b, casts=True)
                        if b0 is not None and (b0.get('kind') in ('CXXNullPtrLiteralExpr', 'GNUNullExpr') or
                                               (b0.get('kind') == 'IntegerLiteral' and b0.get('value') == '0')):
                            neg = (x['opcode'] == '==')
                            x = tu.strip(a, casts=True)
                            break
                if x is not None and x.get('kind') == 'CallExpr' and not neg:
                    q = tu.sd(x).get('q', '').split('::')[-1]
                    args = tu.call_parts(x)[2]
                    if q == 'strchr' and len(args) == 2 and tu.ref_decl(args[1]) == ps0[0]['id']:
                        lb = self.lit_bytes(args[0])
                        if lb is not None:
                            res = frozenset(lb) | {0}
                    elif q == 'memchr' and len(args) == 3 and tu.ref_decl(args[1]) == ps0[0]['id']:
                        lb = self.lit_bytes(args[0])
                        n = self.const_of(args[2])
                        if lb is not None and n is not None and 0 <= n <= len(lb) + 1:
                            res = frozenset((lb + (0,))[:n])
        if res is not None:
            self.pred_cache[key] = res
            return res
        ps = f.get('params', [])
        body = tu.body(f)
        if len(ps) == 1 and self.var_kind(ps[0]['ct']) == 'chr' and body is not None:
            ks = tu.kids(body)
            if len(ks) == 1 and ks[0].get('kind') == 'ReturnStmt' and tu.kids(ks[0]):
                acc = set()

                def disj(x):
                    x = tu.strip(x, casts=True)
                    if x.get('kind') == 'BinaryOperator' and x.get('opcode') == '||':
                        return all(disj(y) for y in tu.kids(x))
                    if x.get('kind') == 'BinaryOperator' and x.get('opcode') == '==':
                        for L, R in (tu.kids(x), tu.kids(x)[::-1]):
                            if tu.ref_decl(L) == ps[0]['id'] and self.const_of(R) is not None:
                                acc.add(self.const_of(R) & 0xff)
                                return True
                    return False
                if disj(tu.kids(ks[0])[0]):
                    res = frozenset(acc)
        self.pred_cache[key] = res
        return res

    def assume(self, e, t, st, depth=0):
        tu = self.tu
        e = tu.strip(e, casts=True)
        if e is None or depth > 12:
            return st
        k = e.get('kind')
        vals = self.vals(st)
        vals[e['id']] = t
        st = dict(st)
        st['$vals'] = fz(vals)
        if k == 'UnaryOperator' and e.get('opcode') == '!':
            return self.assume(tu.kids(e)[0], not t, st, depth + 1)
        if k == 'DeclRefExpr':
            v0, _ = self.decl_of(e)
            if v0 is not None and e.get('type', {}).get('qualType', '').replace('const ', '') == 'bool' and \
                    e.get('referencedDecl', {}).get('kind') == 'VarDecl':
                st = dict(st)
                st[('b', v0)] = bool(t)        # a bool local that was just tested
                return st
            if v0 is not None and ('null', v0) in st and t:
                st = dict(st)
                st.pop(('null', v0), None)
                return st
        if k == 'BinaryOperator' and e.get('opcode') in ('==', '!='):
            for L_, R_ in (tu.kids(e), tu.kids(e)[::-1]):
                v0, _ = self.decl_of(L_)
                r0 = tu.strip(R_, casts=True)
                if v0 is not None and ('null', v0) in st and r0 is not None and (
                        r0.get('kind') in ('CXXNullPtrLiteralExpr', 'GNUNullExpr') or (r0.get('kind') == 'IntegerLiteral' and r0.get('value') == '0')):
                    if (e['opcode'] == '!=') == t:
                        st = dict(st)
                        st.pop(('null', v0), None)
                    return st
        if k == 'BinaryOperator' and e.get('opcode') in ('&&', '||'):
            L, R = tu.kids(e)
            conj = (e['opcode'] == '&&')
            if t == conj:      # (L && R) true  /  (L || R) false : both decided
                st = self.assume(L, t, st, depth + 1)
                return self.assume(R, t, st, depth + 1)
            a, b = self.ev(L, st), self.ev(R, st)
            if a is not None and a == conj:
                return self.assume(R, t, st, depth + 1)
            if b is not None and b == conj:
                return self.assume(L, t, st, depth + 1)
            return st
        if k == 'BinaryOperator' and e.get('opcode') in ('<', '>', '<=', '>=', '==', '!='):
            ks = tu.kids(e)
            a, _ = self.decl_of(ks[0])
            b, _ = self.decl_of(ks[1])
            if a is not None and b is not None and ('c', a) in st and ('c', b) in st:
                op = e['opcode']
                if not t:
                    op = {'<': '>=', '>': '<=', '<=': '>', '>=': '<', '==': '!=', '!=': '=='}[op]
                if op in ('<', '<=', '=='):
                    st[('le', a, b)] = 1
                if op in ('>', '>=', '=='):
                    st[('le', b, a)] = 1
                if op == '<':
                    st[('lt', a, b)] = 1       # strict: b[-1] lies inside [a, b)
                if op == '>':
                    st[('lt', b, a)] = 1
                return st
        if k == 'BinaryOperator' and e.get('opcode') in ('==', '!='):
            ks = tu.kids(e)
            eq = (e['opcode'] == '==') == t
            for L, R in ((ks[0], ks[1]), (ks[1], ks[0])):
                L0 = tu.strip(L, casts=True)
                if L0 is not None and L0.get('kind') == 'CallExpr' and tu.sd(L0).get('q', '').split('::')[-1] in ('memcmp', 'bcmp', 'strncmp') \
                        and self.const_of(R) == 0 and eq:
                    return self.learn_equal_prefix(st, L0)
            for L, R in ((ks[0], ks[1]), (ks[1], ks[0])):
                r = self.read_of(L, st)
                if r is None:
                    continue
                rc = self.char_class_of(R, st)
                if eq and rc in ('NZ', 'NS'):
                    return self.learn_nonzero(st, r, nonspace=(rc == 'NS'), space=False)
                if (not eq) and rc == 'Z':
                    return self.learn_nonzero(st, r)
                cc = self.const_of(R)
                if (not eq) and cc is not None:
                    return self.learn_not(st, r, cc)
            # char variable compared with a constant: refine the variable's class
            for L, R in ((ks[0], ks[1]), (ks[1], ks[0])):
                v, _ = self.decl_of(L)
                c = self.const_of(R)
                if v is not None and ('h', v) in st and c is not None:
                    c &= 0xff
                    if eq:
                        st[('h', v)] = 'Z' if c == 0 else ('NZ' if c in SPACE else 'NS')
                    elif c == 0 and st[('h', v)] == '?':
                        st[('h', v)] = 'NZ'
                    return st
            return st
        if k == 'CallExpr' and tu.sd(e).get('q', '').split('::')[-1] in ('memcmp', 'bcmp', 'strncmp'):
            return self.learn_equal_prefix(st, e) if not t else st
        if k == 'CallExpr':
            q = tu.sd(e).get('q', '')
            args = tu.call_parts(e)[2]
            if args and not t:
                r = self.read_of(args[0], st)
                cf = tu.callee_fn(e)
                if r is not None and cf is not None:
                    ts = self.pred_true_set(cf)
                    if ts:
                        for c in sorted(ts):       # the predicate is false: the byte is none of the bytes it accepts
                            st = self.learn_not(st, r, c)
                return st
            if args and t:
                r = self.read_of(args[0], st)
                if r is not None:
                    if q in CTYPE_FALSE_AT_0:
                        return self.learn_nonzero(st, r, nonspace=(q in CTYPE_NONSPACE), space=(q == 'isspace'))
                    cf = tu.callee_fn(e)
                    if cf is not None and tu.cfg(cf) is not None and len(cf.get('params', [])) == 1 \
                            and self.var_kind(cf['params'][0]['ct']) == 'chr' and self.predicate_false_at_zero(cf):
                        return self.learn_nonzero(st, r)
            return st
        r = self.read_of(e, st)
        if r is not None and t:
            return self.learn_nonzero(st, r)
        v, _ = self.decl_of(e)
        if v is not None and ('h', v) in st:
            if t and st[('h', v)] == '?':
                st[('h', v)] = 'NZ'
            if not t:
                st[('h', v)] = 'Z'
        return st

    # ------------------------------------------------------------------ ordering facts between cursors
    @staticmethod
    def le_copy(st, dst, src):
        """dst := src  (dst == src): dst inherits every ordering fact of src"""
        for k in [k for k in st if isinstance(k, tuple) and k[0] in ('le', 'lt') and (k[1] == dst or k[2] == dst)]:
            del st[k]
        for k in [k for k in st if isinstance(k, tuple) and k[0] in ('le', 'lt')]:
            if k[1] == src:
                st[(k[0], dst, k[2])] = 1
            if k[2] == src:
                st[(k[0], k[1], dst)] = 1
        st[('le', dst, src)] = 1
        st[('le', src, dst)] = 1

    def cursor_at_end(self, st, dst, init):
        """dst = s + strlen(s): the position of the terminating NUL of the text at cursor s - nothing non-NUL lies ahead, s <= dst, and
        nothing is known about the byte in front of it (the text may be empty)"""
        tu = self.tu
        e = tu.strip(init, casts=True)
        if e is None or e.get('kind') != 'BinaryOperator' or e.get('opcode') != '+':
            return False
        for a, b in (tu.kids(e), tu.kids(e)[::-1]):
            v, _ = self.decl_of(a)
            c = tu.strip(b, casts=True)
            if v is not None and ('c', v) in st and c is not None and c.get('kind') == 'CallExpr' and \
                    tu.sd(c).get('q', '').split('::')[-1] == 'strlen' and tu.call_parts(c)[2] and self.decl_of(tu.call_parts(c)[2][0])[0] == v:
                st[('c', dst)] = (0, 0, 0, 0, ())
                st.pop(('null', dst), None)
                self.le_copy(st, dst, v)
                for k in [k for k in st if isinstance(k, tuple) and k[0] in ('le', 'lt') and k[1] == dst and k[2] != dst]:
                    del st[k]
                return True
        return False

    def cursor_result(self, st, dst, init):
        """dst = f(...), f a function that returns a position of the scan (summarised as ('P', state, base)): dst gets that state and is
        not in front of `base`"""
        e = self.tu.strip(init, casts=True)
        if e is None or e.get('kind') != 'CallExpr':
            return False
        r = self.vals(st).get(e['id'])
        if not (isinstance(r, tuple) and r and r[0] == 'P'):
            return False
        st[('c', dst)] = r[1]
        st.pop(('null', dst), None)
        if r[2] is not None and r[2] != dst and ('c', r[2]) in st:
            self.le_copy(st, dst, r[2])
            for k in [k for k in st if isinstance(k, tuple) and k[0] in ('le', 'lt') and k[1] == dst and k[2] != dst]:
                del st[k]                  # base <= dst only
        else:
            keep = r[2] == dst
            for k in [k for k in st if isinstance(k, tuple) and k[0] in ('le', 'lt') and ((k[1] == dst and k[2] != dst) or
                                                                                    (k[2] == dst and k[1] != dst and not keep))]:
                del st[k]                  # dst = f(dst): moved forward by zero or more; otherwise nothing is known
        st.pop(('len', dst), None)
        return True

    @staticmethod
    def le_forward(st, v):
        """v moved forward by one or more: facts v <= x are lost (v < x weakens to v <= x when the step is one byte: the caller says so
        with `one`), x <= v stay"""
        strict = [k for k in st if isinstance(k, tuple) and k[0] == 'lt' and k[1] == v and k[2] != v]
        for k in [k for k in st if isinstance(k, tuple) and k[0] == 'le' and k[1] == v and k[2] != v]:
            del st[k]
        for k in strict:
            del st[k]
        for k in [k for k in st if isinstance(k, tuple) and k[0] == 'le' and k[2] == v and k[1] != v]:
            st[('lt', k[1], v)] = 1            # x <= v and v moved forward: x < v
        st.pop(('len', v), None)

    @staticmethod
    def le_backward(st, v):
        """v moved backward by one: x <= v is lost unless x < v was known (then x <= v still holds); v <= x stay"""
        strict = {k[1] for k in st if isinstance(k, tuple) and k[0] == 'lt' and k[2] == v and k[1] != v}
        for k in [k for k in st if isinstance(k, tuple) and k[0] == 'le' and k[2] == v and k[1] != v]:
            if k[1] not in strict:
                del st[k]
        for x in strict:
            del st[('lt', x, v)]
        st.pop(('len', v), None)

    @staticmethod
    def le_forget(st, v):
        for k in [k for k in st if isinstance(k, tuple) and k[0] in ('le', 'lt') and (k[1] == v or k[2] == v)]:
            del st[k]
        st.pop(('len', v), None)

    @staticmethod
    def strictly_after(st, v):
        """a tracked cursor x with x < v: v[-1] lies inside [x, v), i.e. inside the buffer"""
        for k in st:
            if isinstance(k, tuple) and k[0] == 'lt' and k[2] == v and k[1] != v:
                return k[1]
        return None

    def need_le(self, f, st, a, b, node, what):
        """require a <= b for two tracked cursors"""
        if a == b or ('le', a, b) in st:
            return
        na, nb = self.names.get(a, '?'), self.names.get(b, '?')
        self.finding('R-C16-5', f, 'unordered-range:%s..%s' % (na, nb),
                     '%s uses the range [%s, %s) although `%s <= %s` is not established on this path (the end pointer may have '
                     'been moved in front of the begin pointer): the length becomes negative / huge' % (what, na, nb, na, nb), node)

    # ------------------------------------------------------------------ findings
    def finding(self, rule, f, kind, detail, node):
        tu = self.tu
        key = '%s|%s|%s|%s' % (rule, tu.fn_file(f), f['q'].replace('rkcommon::', '') + ' ' + f['fty'], kind)
        if key not in self.findings:
            self.findings[key] = {'rule': rule, 'fn': f, 'detail': detail, 'loc': tu.loc(node) if node else tu.fn_loc(f),
                                  'key': key, 'expr': tu.show(node) if node else ''}

    def undecide(self, f, what, node):
        k = (f['q'], what)
        if k not in self.undecided:
            self.undecided[k] = (f, what, self.tu.loc(node) if node else self.tu.fn_loc(f))

    # ------------------------------------------------------------------ function summaries
    def summ(self, f, entry):
        """entry: frozen dict over ('c'|'h', param id).  Returns set of (exit-frozen-dict over cursor params, ret, adv)."""
        key = (f['id'], entry)
        if key in self.memo:
            return self.memo[key]
        if key in self.inprog:
            self.inprog[key][1] = True
            return self.inprog[key][0]
        self.inprog[key] = [set(), False]
        while True:
            self.inprog[key][1] = False
            outs = self.analyse(f, entry)
            if not self.inprog[key][1] or outs == self.inprog[key][0]:
                break
            self.inprog[key][0] = outs
        del self.inprog[key]
        self.memo[key] = outs
        self.summaries += 1
        return outs

    def analyse(self, f, entry):
        tu = self.tu
        g = tu.cfg(f)
        heads = frozenset(h for (_, h) in g.back_edges())
        backs = set(g.back_edges())
        params = [p['id'] for p in f.get('params', [])] + self.cursor_fields(f)
        st0 = dict(entry)
        st0['$vals'] = ()
        st0['$P'] = frozenset()
        st0['$adv'] = 0
        eng = self

        def moved(st):
            st['$P'] = heads
            st['$adv'] = 1
            st['$vals'] = ()

        def transfer(blk, i, el, s):
            eng.steps += 1
            eng.cur_fn = f
            if el[0] == 'I' and len(el) >= 3 and el[2] in eng.member_cursors():
                # constructor initialiser of a member cursor: it takes the position of the cursor it is initialised from
                st = dict(s)
                src, _ = eng.decl_of(tu.node(el[1])) if tu.node(el[1]) is not None else (None, None)
                eng.names.setdefault(el[2], 'this->' + str(el[3]))
                if src is not None and ('c', src) in st:
                    st[('c', el[2])] = st[('c', src)]
                    eng.le_copy(st, el[2], src)
                else:
                    st[('c', el[2])] = (0, 0, 0, 0, ())
                return [fz(st)]
            if el[0] != 'S':
                return [s]
            n = tu.node(el[1])
            if n is None:
                return [s]
            st = dict(s)
            k = n.get('kind')
            if k == 'CXXThrowExpr':
                return []
            if k == 'ReturnStmt':
                ks = tu.kids(n)
                st['$ret'] = eng.ev(ks[0], st) if ks else None
                if ks and st['$ret'] is None and ('basic_string' in f.get('fty', '') or f.get('fty', '').startswith('std::string')):
                    st['$ret'] = eng.str_class(ks[0], st)
                rt0_ = f.get('fty', '').split('(')[0].strip()
                if ks and rt0_.endswith('*') and 'char' in rt0_:
                    # a function that returns a position of the scan: the state of the returned cursor, and - when it is a by-value
                    # parameter that only moved forward - the parameter whose original value it is not in front of
                    rv_, _ = eng.decl_of(ks[0])
                    if rv_ is not None and ('c', rv_) in st:
                        isp_ = any(p_['id'] == rv_ for p_ in f.get('params', []))
                        fwd_ = rv_ not in st.get('$dec', ())
                        base_ = rv_ if (isp_ and fwd_) else None
                        if base_ is None:
                            for p_ in f.get('params', []):
                                if ('le', p_['id'], rv_) in st and p_['id'] not in st.get('$dec', ()) and not eng.param_written(f, p_['id']):
                                    base_ = p_['id']
                        st['$ret'] = ('P', st[('c', rv_)], base_)
                if ks and not f.get('fty', '').startswith('bool') and not f.get('fty', '').startswith('std::'):
                    c_ = eng.const_of(ks[0])
                    rt_ = f.get('fty', '').split('(')[0].strip()
                    if c_ is not None and not rt_.endswith('*') and not rt_.endswith('&'):
                        st['$ret'] = ('E', c_)        # a constant (enumerator) returned by a classifier such as peekItem()
                return [fz(st)]
            if k in ('UnaryOperator', 'ArraySubscriptExpr'):
                op = n.get('opcode')
                if k == 'ArraySubscriptExpr' or op == '*':
                    r = eng.read_of(n, st)
                    if r is not None:
                        v, j = r
                        eng.need_nonnull(f, st, v, n, 'the read `%s`' % tu.show(n)[:30])
                        K, A, N0, B1, NE = st[('c', v)]
                        nm = eng.names.get(v, '?')
                        if j is None:
                            eng.undecide(f, 'read through cursor `%s` with a non-constant index' % nm, n)
                        elif j >= 0 and j > K:
                            eng.finding('R-C16-1', f, 'read-past-nul:%s[%d]' % (nm, j),
                                        'reads `%s[%d]` although only %d leading byte(s) are known to be non-NUL: if an '
                                        'earlier byte is the terminating NUL this reads outside the buffer' % (nm, j, K), n)
                        elif j == -1 and not A and eng.strictly_after(st, v) is None:
                            eng.finding('R-C16-1', f, 'read-before-buffer:%s[-1]' % nm,
                                        'reads `%s[-1]` although no non-whitespace byte is known to precede the cursor: the '
                                        'backward scan can leave the buffer' % nm, n)
                        elif j < -1:
                            eng.undecide(f, 'read `%s[%d]` (negative offset below -1)' % (nm, j), n)
                    return [fz(st)]
                if op in ('++', '--'):
                    v, nm = eng.decl_of(tu.kids(n)[0])
                    if v is not None and ('c', v) in st:
                        K, A, N0, B1, NE = st[('c', v)]
                        if op == '++':
                            if K < 1:
                                eng.finding('R-C16-1', f, 'advance-past-nul:%s' % nm,
                                            '`++%s` is executed although `%s[0]` is not known to be non-NUL on this path: '
                                            'at the terminating NUL the cursor leaves the buffer%s' % (nm, nm, eng.nul_true_note(f)), n)
                            st[('c', v)] = (max(K - 1, 0), 1 if (A or N0) else 0, 0, 0, ())
                            eng.le_forward(st, v)
                        else:
                            if not A and eng.strictly_after(st, v) is None:
                                eng.finding('R-C16-1', f, 'retreat-before-buffer:%s' % nm,
                                            '`--%s` is executed although no non-whitespace byte is known to precede the '
                                            'cursor: it can move before the buffer' % nm, n)
                            st[('c', v)] = (min(K + 1, CAP) if B1 else 0, A if B1 else 0, 0, 0, ())
                            eng.le_backward(st, v)
                            st['$dec'] = tuple(sorted(set(st.get('$dec', ())) | {v}))
                        moved(st)
                    return [fz(st)]
                return [fz(st)]
            if k == 'CompoundAssignOperator':
                ks = tu.kids(n)
                v, nm = eng.decl_of(ks[0])
                if v is not None and ('c', v) in st:
                    rhs = tu.strip(ks[1], casts=True)
                    cases = []
                    if rhs is not None and rhs.get('kind') == 'ConditionalOperator':
                        cnd, ea, eb = tu.kids(rhs)[:3]
                        for t, arm in ((True, ea), (False, eb)):
                            vv = eng.ev(cnd, st)
                            if vv is not None and vv != t:
                                continue
                            cases.append((eng.assume(cnd, t, dict(st)), eng.int_of(arm, st)))
                    else:
                        cases.append((st, eng.int_of(ks[1], st)))
                    span = None
                    if rhs is not None and rhs.get('kind') == 'CallExpr' and n.get('opcode') == '+=':
                        q = tu.sd(rhs).get('q', '').split('::')[-1]
                        args = tu.call_parts(rhs)[2]
                        if q in ('strspn', 'strcspn') and len(args) == 2 and eng.decl_of(args[0])[0] == v:
                            lb = eng.lit_bytes(args[1])
                            if lb is not None:
                                span = (q, tuple(sorted(set(lb))))
                    if span is not None:
                        # s += strspn(s, set): skips bytes of the set and stops at the first other byte (the NUL is never in the set);
                        # s += strcspn(s, set): stops at the NUL or at the first byte of the set.  Neither passes the terminator.
                        st2 = dict(st)
                        K, A, N0, B1, NE = st2[('c', v)]
                        if span[0] == 'strspn':
                            st2[('c', v)] = (0, 1 if A else 0, 0, 0, tuple(sorted(set(span[1]) - {0})))
                        else:
                            st2[('c', v)] = (0, 1 if (A or N0) else 0, 0, 0, ())
                        eng.le_forward(st2, v)
                        st2['$vals'] = ()
                        return [fz(st2)]
                    res = []
                    for st2, c in cases:
                        st2 = dict(st2)
                        K, A, N0, B1, NE = st2[('c', v)]
                        if n.get('opcode') == '+=' and c is not None and c >= 0:
                            if K < c:
                                eng.finding('R-C16-1', f, 'advance-past-nul:%s' % nm,
                                            '`%s += %d` is executed although only %d leading byte(s) are known to be non-NUL on this '
                                            'path: the cursor can jump over the terminating NUL' % (nm, c, K), n)
                            st2[('c', v)] = (max(K - c, 0), 1 if (A or (N0 and c > 0)) else 0, 0, 0, ())
                            eng.le_forward(st2, v)
                        else:
                            eng.undecide(f, 'cursor `%s` modified by %s with a non-constant or negative step' % (nm, n.get('opcode')), n)
                            st2[('c', v)] = (0, 0, 0, 0, ())
                            eng.le_forget(st2, v)
                        moved(st2)
                        res.append(fz(st2))
                    return res
                return [fz(st)]
            if k == 'BinaryOperator' and n.get('opcode') == '-':
                ks = tu.kids(n)
                a, _ = eng.decl_of(ks[0])
                b, _ = eng.decl_of(ks[1])
                if a is not None and b is not None and ('c', a) in st and ('c', b) in st:
                    eng.need_le(f, st, b, a, n, 'the pointer difference `%s`' % tu.show(n))
                return [fz(st)]
            if k in ('CXXConstructExpr', 'CXXTemporaryObjectExpr') and 'basic_string' in tu.sd(n).get('q', ''):
                args = [a for a in tu.kids(n) if a.get('kind') != 'CXXDefaultArgExpr']
                if len(args) == 2:
                    a, _ = eng.decl_of(args[0])
                    b, _ = eng.decl_of(args[1])
                    if a is not None and b is not None and ('c', a) in st and ('c', b) in st:
                        eng.need_le(f, st, a, b, n, 'the std::string range constructor')
                return [fz(st)]
            if k == 'CXXMemberCallExpr' and tu.sd(n).get('q', '').split('::')[-1] in ('assign', 'append', 'insert') \
                    and 'basic_string' in tu.sd(n).get('q', ''):
                args = tu.call_parts(n)[2]
                if len(args) == 2:
                    a, _ = eng.decl_of(args[0])
                    b, _ = eng.decl_of(args[1])
                    if a is not None and b is not None and ('c', a) in st and ('c', b) in st:
                        eng.need_le(f, st, a, b, n, 'std::string::%s(first, last)' % tu.sd(n).get('q', '').split('::')[-1])
                return [fz(st)]
            if k == 'BinaryOperator' and n.get('opcode') == '=' and \
                    tu.kids(n)[0].get('type', {}).get('qualType', '') == 'bool' and tu.strip(tu.kids(n)[0], casts=True).get('kind') == 'DeclRefExpr' \
                    and tu.strip(tu.kids(n)[0], casts=True).get('referencedDecl', {}).get('kind') == 'VarDecl':
                # a bool local used as a loop flag: false -> true (not reset earlier in this iteration) is a step of the progress measure
                bv_ = tu.strip(tu.kids(n)[0], casts=True)['referencedDecl']['id']
                rv_ = eng.ev(tu.kids(n)[1], st)
                was_ = st.get(('b', bv_))
                if isinstance(rv_, bool):
                    if rv_ and was_ is False and bv_ not in st.get('$Fz', ()):
                        st['$F'] = 1
                    if not rv_:
                        st['$Fz'] = tuple(sorted(set(st.get('$Fz', ())) | {bv_}))
                    st[('b', bv_)] = rv_
                else:
                    st.pop(('b', bv_), None)
                    st['$Fz'] = tuple(sorted(set(st.get('$Fz', ())) | {bv_}))
                st['$vals'] = ()
                return [fz(st)]
            if k == 'BinaryOperator' and n.get('opcode') == '=':
                ks = tu.kids(n)
                v, nm = eng.decl_of(ks[0])
                if v is not None and ('c', v) in st:
                    src, _ = eng.decl_of(ks[1])
                    st.pop(('null', v), None)
                    if src is not None and ('c', src) in st:
                        st[('c', v)] = st[('c', src)]
                        eng.le_copy(st, v, src)
                        if ('null', src) in st:
                            st[('null', v)] = st[('null', src)]
                    elif eng.search_result(st, v, ks[1]):
                        pass
                    elif eng.cursor_result(st, v, ks[1]):
                        moved(st)
                    elif eng.cursor_at_end(st, v, ks[1]):
                        moved(st)
                    else:
                        st[('c', v)] = (0, 0, 0, 0, ())
                        eng.le_forget(st, v)
                    st['$vals'] = ()
                elif v is not None and ('h', v) in st:
                    st[('h', v)] = eng.char_class_of(ks[1], st)
                return [fz(st)]
            if k == 'DeclStmt':
                for vd in tu.kids(n):
                    if vd.get('kind') != 'VarDecl':
                        continue
                    ct = tu.strip_type(vd) if hasattr(tu, 'strip_type') else vd.get('type', {}).get('qualType', '')
                    ct = vd.get('type', {}).get('desugaredQualType', vd.get('type', {}).get('qualType', ''))
                    kind = eng.var_kind(ct)
                    init = tu.kids(vd)[-1] if tu.kids(vd) else None
                    if kind == 'cur':
                        eng.names[vd['id']] = vd.get('name', '?')
                        src, _ = eng.decl_of(init) if init is not None else (None, None)
                        if src is not None and ('c', src) in st:
                            st[('c', vd['id'])] = st[('c', src)]
                            eng.le_copy(st, vd['id'], src)
                            if ('null', src) in st:
                                st[('null', vd['id'])] = st[('null', src)]
                        elif init is not None and eng.search_result(st, vd['id'], init):
                            pass
                        elif init is not None and eng.cursor_result(st, vd['id'], init):
                            pass
                        elif init is not None and eng.cursor_at_end(st, vd['id'], init):
                            pass
                        else:
                            lit = tu.strip(init, casts=True) if init is not None else None
                            if lit is not None and lit.get('kind') == 'StringLiteral':
                                st[('c', vd['id'])] = (min(eng.strlen(lit), CAP), 0, 0, 0, ())
                                lb_ = eng.lit_bytes(lit)
                                if lb_ is not None and 0 not in lb_:
                                    st[('len', vd['id'])] = len(lb_)
                            # any other provenance (new[], library result): not a cursor into the parsed buffer
                    elif kind == 'chr':
                        eng.names[vd['id']] = vd.get('name', '?')
                        st[('h', vd['id'])] = eng.char_class_of(init, st) if init is not None else '?'
                    elif 'basic_string' in ct:
                        cls = None
                        if init is None:
                            cls = 'S0'
                        else:
                            cls = eng.str_class(init, st)
                            if cls is None:
                                vals_ = eng.vals(st)
                                for x_ in tu.walk(init):
                                    if x_.get('id') in vals_ and vals_[x_['id']] in ('S0', 'S1'):
                                        cls = vals_[x_['id']]
                                        break
                        if cls is not None:
                            st[('s', vd['id'])] = cls
                        else:
                            st.pop(('s', vd['id']), None)
                    elif init is not None and re.match(r'^(const )?(unsigned |signed )?(size_t|int|long|unsigned long|unsigned int|std::size_t|ssize_t|unsigned)( int)?$', ct.strip()):
                        i0 = tu.strip(init, casts=True)
                        val = None
                        if i0 is not None and i0.get('kind') == 'CallExpr' and tu.sd(i0).get('q', '').split('::')[-1] == 'strlen' and tu.call_parts(i0)[2]:
                            val = eng.exact_len(tu.call_parts(i0)[2][0], st)
                        elif i0 is not None:
                            val = eng.int_of(i0, st)
                        if val is not None:
                            st[('n', vd['id'])] = val
                return [fz(st)]
            if k == 'CXXMemberCallExpr':
                # a local container used as the stack of open items: pop shrinks it, push grows it (net change since the loop head)
                mq_ = tu.sd(n).get('q', '').split('::')[-1]
                ob_ = tu.call_parts(n)[1]
                od_ = tu.nodes.get(tu.ref_decl(ob_)) if ob_ is not None else None
                if mq_ in ('pop_back', 'pop', 'pop_front', 'push_back', 'emplace_back', 'push', 'emplace', 'push_front', 'emplace_front') and \
                        od_ is not None and od_.get('kind') == 'VarDecl' and od_.get('storageClass') != 'static' and \
                        re.search(r'deque|vector|stack|list', od_.get('type', {}).get('qualType', '')):
                    st['$S'] = max(-3, min(3, st.get('$S', 0) + (-1 if mq_.startswith('pop') else 1)))
                    return [fz(st)]
            if k in ('CallExpr', 'CXXMemberCallExpr', 'CXXOperatorCallExpr'):
                return eng.do_call(f, n, st, moved)
            if k in ('CXXConstructExpr', 'CXXTemporaryObjectExpr'):
                cf_ = tu.callee_fn(n)
                if cf_ is not None and eng.cursor_fields(cf_) and tu.cfg(cf_) is not None:
                    return eng.do_call(f, n, st, moved)     # constructor of a parser object that keeps the cursor in a member
            return [s]

        def switch_labels(blk):
            """[(succ index, case constant | 'default')] if the block ends in a switch whose case labels are constants, else None"""
            res = []
            anycase = False
            for i_, x_ in enumerate(blk.succ):
                if x_ is None:
                    continue
                lab = tu.node(g.blocks[x_].label) if g.blocks[x_].label else None
                if lab is not None and lab.get('kind') == 'CaseStmt' and tu.kids(lab):
                    c_ = eng.const_of(tu.kids(lab)[0])
                    if c_ is None:
                        return None
                    res.append((i_, c_))
                    anycase = True
                else:
                    res.append((i_, 'default'))
            return res if anycase else None

        def refine(blk, si, s):
            succ = blk.succ[si]
            outs = [s]
            sw = switch_labels(blk) if blk.cond is not None else None
            if sw is not None:
                c0 = tu.strip(tu.node(blk.cond), casts=True)
                v_ = eng.vals(dict(s)).get(c0['id']) if c0 is not None else None
                if isinstance(v_, tuple) and v_ and v_[0] == 'E':
                    mine = dict(sw).get(si)
                    consts = [c_ for _, c_ in sw if c_ != 'default']
                    if (mine == 'default' and v_[1] in consts) or (mine != 'default' and mine != v_[1]):
                        return []
                st_ = dict(s)
                st_['$vals'] = ()
                outs = [fz(st_)]
            elif blk.cond is not None and len(blk.succ) == 2:
                c = tu.node(blk.cond)
                if c is not None:
                    t = (si == 0)
                    v = eng.ev(c, dict(s))
                    if v is not None and v != t:
                        return []
                    st = eng.assume(c, t, dict(s))
                    term = tu.node(blk.term) if blk.term else None
                    if term is None or not (term.get('kind') == 'BinaryOperator' and term.get('opcode') in ('&&', '||')):
                        st = dict(st)
                        st['$vals'] = ()
                    outs = [fz(st)]
            if succ in heads:
                res = []
                for o in outs:
                    st = dict(o)
                    if (blk.id, succ) in backs and succ not in st['$P'] and (st.get('$S', 0) < 0 or (st.get('$S', 0) == 0 and st.get('$F'))):
                        pass        # no input consumed, but a local stack of open items shrank (nothing pushed), or - depth unchanged - a
                        #             bool flag that was false went true: (input left, depth, flag) decreases lexicographically
                    elif (blk.id, succ) in backs and succ not in st['$P']:
                        eng.finding('R-C16-2', f, 'no-progress-loop',
                                    'a loop iteration can reach its back edge without consuming any input (possible hang)',
                                    tu.node(g.blocks[succ].term) if g.blocks[succ].term else None)
                    st['$P'] = st['$P'] - {succ}
                    st.pop('$S', None)
                    st.pop('$F', None)
                    st.pop('$Fz', None)
                    res.append(fz(st))
                outs = res
            return outs

        res = g.explore([fz(st0)], transfer, refine, limit=300000)
        outs = set()
        for (s, via) in res.exits:
            if g.blocks[via].noret:
                continue
            d = dict(s)
            ex = {k: v for k, v in d.items() if isinstance(k, tuple) and k[0] == 'c' and k[1] in params}
            for k in d:
                if isinstance(k, tuple) and k[0] == 'le' and k[1] in params and k[2] in params:
                    ex[k] = 1
            ex['$dec'] = tuple(x for x in d.get('$dec', ()) if x in params)
            outs.add((fz(ex), d.get('$ret'), d.get('$adv', 0)))
        return outs

    def strlen(self, lit):
        v = lit.get('value', '""')
        try:
            import ast as pyast
            return len(pyast.literal_eval(v))
        except Exception:
            return max(len(v) - 2, 0)

    def param_written(self, fn, pid):
        """the callee assigns / increments its by-value cursor parameter, takes its address or binds it to a non-const reference"""
        key = (fn['id'], pid)
        if key not in self.pred_cache:
            tu = self.tu
            w = False
            for x in tu.walk(tu.body(fn)):
                k = x.get('kind')
                if k == 'UnaryOperator' and x.get('opcode') in ('++', '--', '&') and tu.ref_decl(tu.kids(x)[0]) == pid:
                    w = True
                elif k in ('BinaryOperator', 'CompoundAssignOperator') and x.get('opcode') in ('=', '+=', '-=') and tu.ref_decl(tu.kids(x)[0]) == pid:
                    w = True
                elif k in ('CallExpr', 'CXXMemberCallExpr', 'CXXOperatorCallExpr', 'CXXConstructExpr'):
                    cf2 = tu.callee_fn(x)
                    args = tu.call_parts(x)[2]
                    for i, a in enumerate(args):
                        if tu.ref_decl(a) == pid:
                            pct = cf2['params'][i]['ct'] if cf2 is not None and i < len(cf2.get('params', [])) else ''
                            if pct.endswith('&') and not pct.startswith('const') and '*const' not in pct.replace(' ', ''):
                                w = True
                if w:
                    break
            self.pred_cache[key] = w
        return self.pred_cache[key]

    def cursor_args(self, args, st, cf):
        """the tracked cursors a call works on: cursor arguments, else the member cursor of the callee's object"""
        out = []
        for a2 in args:
            v2, _ = self.decl_of(a2)
            if v2 is not None and ('c', v2) in st:
                out.append(v2)
        if not out and cf is not None:
            out = [fid for fid in self.cursor_fields(cf) if ('c', fid) in st]
        return out

    def do_call(self, f, n, st, moved):
        tu = self.tu
        cf = tu.callee_fn(n)
        sd, obj, args = tu.call_parts(n)
        qn = sd.get('q', '').split('::')[-1]
        if qn in ('memcmp', 'bcmp', 'memcpy', 'memmove', 'mempcpy') and len(args) == 3:
            # memcmp may read all n bytes of both operands, wherever the first difference is; memcpy reads all n bytes of its source
            nbytes = self.int_of(args[2], st)
            for a in (args[:2] if qn in ('memcmp', 'bcmp') else args[1:2]):
                v, nm = self.decl_of(a)
                if v is None or ('c', v) not in st:
                    continue
                K = st[('c', v)][0]
                avail = st[('len', v)] + 1 if ('len', v) in st else K + 1      # bytes known to lie inside the object
                if nbytes is None and self.span_to_cursor(args[2], v, st):
                    continue        # the length is `other cursor - this cursor`: the bytes between two positions of the scan
                if nbytes is None:
                    self.undecide(f, '%s reads through cursor `%s` with a length that is not known on this path' % (qn, nm), n)
                elif nbytes > avail:
                    self.finding('R-C16-1', f, 'read-past-nul:%s(%s)' % (qn, nm),
                                 '`%s` %s all %d bytes at `%s` although only %d leading byte(s) are known to be non-NUL there: unlike a '
                                 'byte-by-byte %s it does not stop at the %s, so at a file that ends early it reads '
                                 'past the terminating NUL, outside the buffer' % (
                                     tu.show(n)[:50], 'may read' if qn in ('memcmp', 'bcmp') else 'reads', nbytes, nm, K,
                                     'comparison' if qn in ('memcmp', 'bcmp') else 'copy',
                                     'first difference' if qn in ('memcmp', 'bcmp') else 'terminator'), n)
            return [fz(st)]
        if cf is None or tu.cfg(cf) is None:
            # library call: a tracked cursor handed over by non-const reference would escape
            for a in args:
                v, nm = self.decl_of(a)
                if v is not None and ('c', v) in st:
                    ct = tu.sd(tu.strip(a)).get('ct', '')
            return [fz(st)]
        ps = cf.get('params', [])
        entry = {}
        bind = {}
        bind_val = {}
        relevant = False
        for p, a in zip(ps, args):
            kind = self.var_kind(p['ct'])
            self.names.setdefault(p['id'], p['name'])
            if kind == 'cur':
                v, nm = self.decl_of(a)
                if v is not None and ('c', v) in st:
                    self.need_nonnull(f, st, v, n, 'the call `%s`' % tu.show(n)[:40])
                    entry[('c', p['id'])] = st[('c', v)]
                    if ('len', v) in st:
                        entry[('len', p['id'])] = st[('len', v)]
                    if p['ct'].endswith('&'):
                        bind[p['id']] = v
                    elif not self.param_written(cf, p['id']):
                        # a cursor passed by value that the callee never moves still denotes the caller's position when the callee
                        # returns: what the callee learned about the bytes there (e.g. an expect() that returns only on a match) holds
                        bind_val[p['id']] = v
                    relevant = True
                else:
                    lit = tu.strip(a, casts=True)
                    if lit is not None and lit.get('kind') == 'StringLiteral':
                        entry[('c', p['id'])] = (min(self.strlen(lit), CAP), 0, 0, 0, ())
                        lb_ = self.lit_bytes(lit)
                        if lb_ is not None and 0 not in lb_:
                            entry[('len', p['id'])] = len(lb_)
                        try:
                            import ast as pyast
                            first = pyast.literal_eval(lit.get('value', '""'))[:1]
                        except Exception:
                            first = ''
                        if first and ord(first) in DELIMS:
                            for v2 in self.cursor_args(args, st, cf):
                                self.delim_site(f, n, ord(first), st, v2, 'lit')
                                break
                    else:
                        entry[('c', p['id'])] = (0, 0, 0, 0, ())
                    relevant = True
            elif kind == 'chr':
                entry[('h', p['id'])] = self.char_class_of(a, st)
                relevant = True
                c = self.const_of(a)
                if c is not None and (c & 0xff) in DELIMS:
                    for v2 in self.cursor_args(args, st, cf):
                        self.delim_site(f, n, c & 0xff, st, v2, 'call')
                        break
        for fid in self.cursor_fields(cf):
            if ('c', fid) in st:
                entry[('c', fid)] = st[('c', fid)]
                if ('len', fid) in st:
                    entry[('len', fid)] = st[('len', fid)]
                relevant = True
            if ('c', fid) in st or cf.get('ctor'):
                bind[fid] = fid
        if not relevant:
            return [fz(st)]
        argvar = {}
        for fid in self.cursor_fields(cf):
            if ('c', fid) in entry:
                argvar[fid] = fid
        for p, a in zip(ps, args):
            if ('c', p['id']) in entry:
                v, nm = self.decl_of(a)
                if v is not None and ('c', v) in st:
                    argvar[p['id']] = v
        for p1, v1 in argvar.items():
            for p2, v2 in argvar.items():
                if p1 != p2 and (v1 == v2 or ('le', v1, v2) in st):
                    entry[('le', p1, p2)] = 1
                if p1 != p2 and ('lt', v1, v2) in st:
                    entry[('lt', p1, p2)] = 1
        outs = self.summ(cf, fz(entry))
        res = []
        for (ex, ret, adv) in outs:
            s2 = dict(st)
            exd = dict(ex)
            for key, val in exd.items():
                if isinstance(key, tuple) and key[0] == 'c' and key[1] in bind:
                    s2[('c', bind[key[1]])] = val
                elif isinstance(key, tuple) and key[0] == 'c' and key[1] in bind_val:
                    s2[('c', bind_val[key[1]])] = val
            for pid, v in bind.items():
                # a cursor handed over by reference: the callee moved it forward (and backward if it says so)
                if adv:
                    self.le_forward(s2, v)
                if pid in exd.get('$dec', ()):
                    for k_ in [k_ for k_ in s2 if isinstance(k_, tuple) and k_[0] in ('le', 'lt') and k_[2] == v and k_[1] != v]:
                        del s2[k_]        # moved backward by an unknown number of bytes
            if adv:
                moved(s2)
            if isinstance(ret, tuple) and ret and ret[0] == 'P':
                ret = ('P', ret[1], argvar.get(ret[2]))
            if isinstance(ret, bool) or ret in ('S0', 'S1') or (isinstance(ret, tuple) and ret and ret[0] in ('E', 'P')):
                vals = self.vals(s2)
                vals[n['id']] = ret
                s2['$vals'] = fz(vals)
            r = fz(s2)
            if r not in res:
                res.append(r)
        return res


def reachable_fns(tu, start):
    seen = {start['id']: start}
    work = [start]
    while work:
        f = work.pop()
        g = tu.cfg(f)
        if g is None:
            continue
        for b, i, n in g.stmts():
            if n.get('kind') in ('CallExpr', 'CXXMemberCallExpr', 'CXXOperatorCallExpr', 'CXXConstructExpr'):
                cf = tu.callee_fn(n)
                if cf is not None and cf['id'] not in seen and tu.cfg(cf) is not None:
                    seen[cf['id']] = cf
                    work.append(cf)
    return list(seen.values())


def check_cursor(ctx, tu):
    R1, R2 = 'R-C16-1', 'R-C16-2'
    ctx.describe(R1, 'the parser cursor never passes the terminating NUL and no byte outside the buffer is read, on any path, '
                     'for any input (abstract interpretation with the non-NUL look-ahead domain)')
    ctx.describe(R2, 'every iteration of every loop of a parsing function moves the cursor (no hang on any input)')
    ctx.describe('R-C16-5', 'every use of a [begin,end) pair of cursors as a range (pointer difference, std::string range '
                            'construction/assign) is reached only with begin <= end established (copy + forward moves, or an explicit test)')
    entry = tu.fns(q='rkcommon::xml::parseXML')
    if len(entry) != 1 or tu.cfg(entry[0]) is None:
        ctx.broken('R-C16-1: entry point rkcommon::xml::parseXML not found in %s' % XML_FILE)
        return
    f = entry[0]
    curs = [p for p in f['params'] if p['ct'] in CURSOR_TYPES]
    if len(curs) != 1:
        ctx.broken('R-C16-1: parseXML is expected to take exactly one cursor (char*) parameter')
        return
    eng = Engine(tu, ctx)
    eng.names = {curs[0]['id']: curs[0]['name']}
    eng.summ(f, fz({('c', curs[0]['id']): (0, 0, 0, 0, ())}))
    analysed = {}
    for (fid, ent) in eng.memo:
        analysed.setdefault(fid, 0)
        analysed[fid] += 1
    nloops = 0
    for fid, cnt in sorted(analysed.items(), key=lambda kv: tu.functions[kv[0]]['l']):
        fn = tu.functions[fid]
        g = tu.cfg(fn)
        inst = '%s %s' % (fn['q'].replace('rkcommon::', ''), fn['fty'])
        mine = [x for x in eng.findings.values() if x['fn']['id'] == fid]
        for x in mine:
            ctx.violation(x['rule'], inst, '%s  [at `%s`]' % (x['detail'], x['expr']), x['loc'], key=x['key'],
                          path=['entry parseXML(s) with nothing known about s', 'in %s (%d abstract entry state(s))' % (inst, cnt),
                                'offending element at %s: %s' % (x['loc'], x['expr'])])
        nranges = sum(1 for b, i, n in g.stmts() if (n.get('kind') == 'BinaryOperator' and n.get('opcode') == '-'
                                                     and all(eng.decl_of(k)[0] in eng.names for k in tu.kids(n)))
                      or (n.get('kind') in ('CXXConstructExpr', 'CXXTemporaryObjectExpr') and 'basic_string' in tu.sd(n).get('q', '')
                          and sum(1 for k in tu.kids(n) if eng.decl_of(k)[0] in eng.names) == 2))
        if nranges and not any(x['rule'] == 'R-C16-5' for x in mine):
            ctx.ok('R-C16-5', inst, '%d range use(s) reached only with ordered cursors' % nranges, tu.fn_loc(fn))
        if not any(x['rule'] == R1 for x in mine):
            nreads = sum(1 for b, i, n in g.stmts() if n.get('kind') in ('ArraySubscriptExpr',) or
                         (n.get('kind') == 'UnaryOperator' and n.get('opcode') in ('*', '++', '--')))
            ctx.ok(R1, inst, '%d cursor reads/moves safe under %d abstract entry state(s)' % (nreads, cnt), tu.fn_loc(fn),
                   nontrivial=nreads > 0)
        loops = len(g.back_edges())
        nloops += loops
        if loops and not any(x['rule'] == R2 for x in mine):
            ctx.ok(R2, inst, '%d loop(s): every back edge is reached only after the cursor moved' % loops, tu.fn_loc(fn))
    for (fn, what, loc) in eng.undecided.values():
        ctx.undecided(R1, fn['q'], what, loc)
    ctx.floor(R1, len(analysed), 12, 'parseXML reaches 16 parsing helpers on the pinned tree')
    ctx.floor(R2, nloops, 8, 'scanning loops in the parser on the pinned tree: 11')
    ctx.extra['c16_summaries'] = eng.summaries
    ctx.extra['c16_transfer_steps'] = eng.steps
    return eng


def check_readxml(ctx, tu):
    R3 = 'R-C16-3'
    ctx.describe(R3, 'readXML: buffer of numBytes+1 zeroed bytes, fread limited to numBytes, parser entered on that buffer; '
                     'every throw reachable from readXML throws std::runtime_error')
    fs = tu.fns(q='rkcommon::xml::readXML')
    if len(fs) != 1 or tu.cfg(fs[0]) is None:
        ctx.broken('R-C16-3: rkcommon::xml::readXML not found')
        return
    f = fs[0]
    eng0 = Engine(tu, ctx)
    inst = 'xml::readXML'

    def find_buffer(fn):
        """(VarDecl node, size var id) of a std::vector<char> V(N + k, 0) with k >= 1 declared in fn"""
        for n in tu.walk(tu.body(fn)):
            if n.get('kind') == 'VarDecl' and 'vector<char' in n.get('type', {}).get('qualType', '').replace(' ', '').replace('std::', ''):
                ks = tu.kids(n)
                ce = tu.strip(ks[-1]) if ks else None
                if ce is not None and ce.get('kind') == 'CXXConstructExpr':
                    args = [a for a in tu.kids(ce) if a.get('kind') != 'CXXDefaultArgExpr']
                    if len(args) >= 2:
                        a0 = tu.strip(args[0], casts=True)
                        if a0.get('kind') == 'BinaryOperator' and a0.get('opcode') == '+':
                            l, r = tu.kids(a0)
                            for x, y in ((l, r), (r, l)):
                                v, nm = eng0.decl_of(x)
                                c = tu.sd(tu.strip(y, casts=True)).get('cv')
                                if v is not None and c is not None and int(c) >= 1 and tu.sd(tu.strip(args[1], casts=True)).get('cv') == '0':
                                    return n, v
        return None, None

    def data_of(e, off=None):
        """decl id of the vector whose .data() / &v[0] the expression is; with `off` (a list) also `v.data() + k` for a variable k,
        whose declaration id is appended to off"""
        e = tu.strip(e, casts=True)
        if e is not None and e.get('kind') == 'CXXMemberCallExpr' and tu.sd(e).get('q', '').endswith('::data'):
            s_, obj, _ = tu.call_parts(e)
            v, nm = eng0.decl_of(obj)
            return v
        if off is not None and e is not None and e.get('kind') == 'BinaryOperator' and e.get('opcode') == '+':
            l, r = tu.kids(e)
            v = data_of(l)
            k, _ = eng0.decl_of(r)
            if v is not None and k is not None:
                off.append(k)
                return v
        return None

    def fread_loop_exit(call):
        """None if the fread call is not inside a loop; else (loop, True/False): does the loop have an exit that does not depend on
        fread delivering bytes - a break / return / throw / goto in its body, or a condition that tests the result of the call itself or
        feof / ferror?"""
        cur = tu.par(call)
        inner = call
        while cur is not None and cur.get('kind') not in ('FunctionDecl', 'CXXMethodDecl', 'LambdaExpr'):
            if cur.get('kind') in ('WhileStmt', 'ForStmt', 'DoStmt'):
                body_exit = any(x.get('kind') in ('BreakStmt', 'ReturnStmt', 'CXXThrowExpr', 'GotoStmt') for x in tu.walk(cur))
                raw = cur.get('inner', [])
                cond = None
                if cur.get('kind') == 'WhileStmt' and len(tu.kids(cur)) >= 2:
                    cond = tu.kids(cur)[-2]
                elif cur.get('kind') == 'DoStmt' and tu.kids(cur):
                    cond = tu.kids(cur)[-1]
                elif cur.get('kind') == 'ForStmt' and len(raw) == 5 and raw[2].get('kind'):
                    cond = raw[2]
                cond_exit = cond is not None and any(
                    x is call or (x.get('kind') == 'CallExpr' and tu.sd(x).get('q', '') in ('feof', 'ferror', 'feof_unlocked', 'ferror_unlocked'))
                    for x in tu.walk(cond))
                return cur, (body_exit or cond_exit)
            inner = cur
            cur = tu.par(cur)
        return None

    # the function that builds the buffer: readXML itself or a helper it calls whose result initialises the parsed vector
    builder, bufvar, sizevar = None, None, None
    parsed_vec = None
    for cand in [f] + [x for x in reachable_fns(tu, f) if x['id'] != f['id'] and tu.fn_file(x) == XML_FILE]:
        bv, sv = find_buffer(cand)
        if bv is not None:
            builder, bufvar, sizevar = cand, bv, sv
            break
    if bufvar is None:
        # an array from operator new: value-initialised (`new char[n + 1]()`) is a zeroed buffer in another container - not followed here;
        # default-initialised bytes stay indeterminate wherever fread (whose result must then bound the parse) delivers less than asked for
        news = [(f, x) for x in tu.walk(tu.body(f)) if x.get('kind') == 'CXXNewExpr' and x.get('isArray') and
                re.search(r'\bchar\b', x.get('type', {}).get('qualType', ''))]       # (the reader's own buffer, not a token helper's scratch)
        rd = [x for x in tu.walk(tu.body(f)) if x.get('kind') == 'CallExpr' and tu.sd(x).get('q', '').split('::')[-1] in ('fread', 'fread_unlocked')]
        for cand, x in news:
            if cand['id'] != f['id'] and not rd:
                continue
            if x.get('initStyle') in ('call', 'list'):
                ctx.undecided(R3, inst, 'the file buffer is a value-initialised `%s`, not a std::vector<char>: this form is not followed' % tu.show(x)[:50],
                              tu.loc(x))
                return
            def discarded(y):
                q = tu.par(y)
                while q is not None and q.get('kind') in ('ImplicitCastExpr', 'ParenExpr'):
                    q = tu.par(q)
                return q is not None and q.get('kind') in ('CStyleCastExpr', 'CXXStaticCastExpr', 'CXXFunctionalCastExpr') and \
                    q.get('type', {}).get('qualType') == 'void'
            used = False
            for c in rd:
                holder = tu.par(c)
                while holder is not None and holder.get('kind') in ('ImplicitCastExpr', 'ParenExpr'):
                    holder = tu.par(holder)
                if holder is not None and holder.get('kind') == 'VarDecl':
                    used = used or any(y.get('kind') == 'DeclRefExpr' and tu.ref_decl(y) == holder['id'] and not discarded(y)
                                       for y in tu.walk(tu.body(f)))
                elif holder is not None and holder.get('kind') not in ('CompoundStmt', 'CStyleCastExpr'):
                    used = True
            if rd and not used:
                ctx.violation(R3, inst, 'the file buffer `%s` is not zero-initialised (only its last byte is set) and the number of bytes fread '
                              'actually delivered is not used: when the read is short (I/O error, file truncated between ftell and fread, '
                              'text-mode translation) the parser runs over indeterminate heap bytes up to the terminator - it parses '
                              'whatever earlier allocations left there' % tu.show(x)[:50], tu.loc(x),
                              key='%s|%s|readXML|buffer-not-zeroed' % (R3, XML_FILE))
                return
        ctx.violation(R3, inst, 'the file buffer is not a std::vector<char> of (numBytes + k, k >= 1) zero-initialised bytes: '
                      'the parser relies on a terminating NUL', tu.fn_loc(f), key='%s|%s|readXML|buffer-not-nul-terminated' % (R3, XML_FILE))
        return
    if builder['id'] == f['id']:
        parsed_vec = bufvar['id']
    else:
        # the helper must return that very vector, and readXML must initialise its vector from the helper's result
        rets = [n for n in tu.walk(tu.body(builder)) if n.get('kind') == 'ReturnStmt']
        def returns_buf(r):
            ks = tu.kids(r)
            if not ks:
                return False
            refs = [x for x in tu.walk(ks[0]) if x.get('kind') == 'DeclRefExpr' and x.get('referencedDecl', {}).get('kind') == 'VarDecl']
            return len(refs) == 1 and refs[0]['referencedDecl'].get('id') == bufvar['id']
        if not rets or not all(returns_buf(r) for r in rets):
            ctx.undecided(R3, inst, 'the helper %s builds a NUL-terminated buffer but does not simply return it' % builder['q'], tu.fn_loc(builder))
            return
        for n in tu.walk(tu.body(f)):
            if n.get('kind') == 'VarDecl' and tu.kids(n):
                for x in tu.walk(tu.kids(n)[-1]):
                    if x.get('kind') == 'CallExpr' and (tu.callee_fn(x) or {}).get('id') == builder['id']:
                        parsed_vec = n['id']
        if parsed_vec is None:
            ctx.undecided(R3, inst, 'cannot connect the buffer built by %s with the vector handed to parseXML' % builder['q'], tu.fn_loc(f))
            return
    ctx.ok(R3, inst + ': buffer', 'std::vector<char> %s(numBytes + 1, 0) built in %s' % (bufvar.get('name'), builder['q'].replace('rkcommon::', '')),
           tu.loc(bufvar))
    # the size comes from ftell(): -1 for a file that cannot be sought (pipe, terminal); it must be rejected before it sizes the buffer
    sized = tu.node(sizevar)
    from_ftell = sized is not None and any(x.get('kind') == 'CallExpr' and tu.sd(x).get('q', '').split('::')[-1] in ('ftell', 'ftello', '_ftelli64')
                                           for x in tu.walk(sized))
    if from_ftell:
        tests = []
        for x in tu.walk(tu.body(builder)):
            if x.get('kind') == 'BinaryOperator' and x.get('opcode') in ('<', '<=', '==', '>', '>=', '!='):
                l, r = tu.kids(x)
                for a, b, op in ((l, r, x['opcode']), (r, l, {'<': '>', '>': '<', '<=': '>=', '>=': '<='}.get(x['opcode'], x['opcode']))):
                    if eng0.decl_of(a)[0] == sizevar and eng0.const_of(b) is not None:
                        tests.append((x, op, eng0.const_of(b)))
        rejecting = None
        for x, op, c in tests:
            # `numBytes < 0`, `numBytes <= -1`, `numBytes == -1` guarding a throw / return (or the complementary test guarding the rest)
            neg_true = (op == '<' and c == 0) or (op == '<=' and c == -1) or (op == '==' and c == -1)
            neg_false = (op == '>=' and c == 0) or (op == '>' and c == -1) or (op == '!=' and c == -1)
            cur = tu.par(x)
            while cur is not None and cur.get('kind') not in ('IfStmt', 'FunctionDecl', 'CXXMethodDecl'):
                cur = tu.par(cur)
            if cur is None or cur.get('kind') != 'IfStmt':
                continue
            ks = tu.kids(cur)
            then_exits = len(ks) > 1 and any(y.get('kind') in ('CXXThrowExpr', 'ReturnStmt') for y in tu.walk(ks[1]))
            else_exits = len(ks) > 2 and any(y.get('kind') in ('CXXThrowExpr', 'ReturnStmt') for y in tu.walk(ks[2]))
            buf_inside_then = len(ks) > 1 and any(y is bufvar for y in tu.walk(ks[1]))
            if (neg_true and then_exits) or (neg_false and (else_exits or buf_inside_then)):
                rejecting = cur
                break
        if rejecting is not None:
            ctx.ok(R3, inst + ': size', 'a negative ftell() result is rejected before it sizes the buffer', tu.loc(rejecting))
        elif tests:
            ctx.undecided(R3, inst + ': size', 'the ftell() result is compared (`%s`) but not in a recognised rejecting form' % tu.show(tests[0][0])[:50],
                          tu.loc(tests[0][0]))
        else:
            ctx.violation(R3, inst + ': size', 'the result of ftell() sizes the buffer and bounds fread without being tested: for a file that cannot '
                          'be sought (pipe, terminal, process substitution) it is -1, the buffer gets numBytes + 1 == 0 bytes, fread is asked for '
                          'SIZE_MAX bytes and the parser is entered on a null pointer', tu.loc(sized),
                          key='%s|%s|readXML|size-unchecked' % (R3, XML_FILE))
    if not from_ftell:
        # the size taken from a stat structure: which call filled it?  lstat() describes a symbolic link itself, not the file fopen() opened
        stvars = set()
        for x in tu.walk(tu.body(builder)):
            tgt = None
            if x.get('kind') == 'VarDecl' and x['id'] == sizevar and tu.kids(x):
                tgt = tu.kids(x)[-1]
            elif x.get('kind') == 'BinaryOperator' and x.get('opcode') == '=' and eng0.decl_of(tu.kids(x)[0])[0] == sizevar:
                tgt = tu.kids(x)[1]
            if tgt is None:
                continue
            for y in tu.walk(tgt):
                if y.get('kind') == 'MemberExpr' and y.get('name') == 'st_size' and tu.kids(y):
                    d = tu.ref_decl(tu.kids(y)[0])
                    if d:
                        stvars.add(d)
        for x in tu.walk(tu.body(builder)):
            if x.get('kind') != 'CallExpr' or not stvars:
                continue
            q = tu.sd(x).get('q', '').split('::')[-1]
            args = tu.call_parts(x)[2]
            if q in ('lstat', 'lstat64', 'stat', 'stat64', 'fstat', 'fstat64', 'fstatat') and args and \
                    any(y.get('kind') == 'DeclRefExpr' and tu.ref_decl(y) in stvars for a in args for y in tu.walk(a)):
                if q.startswith('lstat'):
                    ctx.violation(R3, inst + ': size', 'the size that sizes the buffer and bounds fread comes from `%s`, which describes a symbolic '
                                  'link itself (st_size = length of the link text), while fopen() followed the link: a document opened through '
                                  'a symlink is cut after that many bytes - a valid document is rejected or a truncated tree is returned' %
                                  tu.show(x)[:50], tu.loc(x), key='%s|%s|readXML|size-of-link-not-file' % (R3, XML_FILE))
                elif q.startswith('fstat'):
                    ctx.ok(R3, inst + ': size', 'size taken with fstat() from the opened stream', tu.loc(x))
                else:
                    ctx.ok(R3, inst + ': size', 'not decided here (size taken with %s() by name: follows links, but the name can be '
                           're-bound between the two calls)' % q, tu.loc(x), nontrivial=False)
    nread = nparse = 0
    for fn in (builder, f) if builder['id'] != f['id'] else (f,):
        for b, i, n in tu.cfg(fn).stmts():
            if n.get('kind') != 'CallExpr':
                continue
            q = tu.sd(n).get('q', '')
            args = tu.call_parts(n)[2]
            offs = []
            if q in ('fread', 'fread_unlocked') and len(args) == 4 and data_of(args[0], offs) == bufvar['id']:
                nread += 1
                vs = []
                for a in (args[1], args[2]):
                    v, nm = eng0.decl_of(a)
                    c = tu.sd(tu.strip(a, casts=True)).get('cv')
                    if v is None and offs:
                        # `numBytes - off` for a read that starts at data() + off
                        a0 = tu.strip(a, casts=True)
                        if a0 is not None and a0.get('kind') == 'BinaryOperator' and a0.get('opcode') == '-':
                            l_, r_ = tu.kids(a0)
                            if eng0.decl_of(l_)[0] == sizevar and eng0.decl_of(r_)[0] == offs[0]:
                                v = sizevar
                    vs.append((v, c))
                okb = ((vs[0][1] == '1' and vs[1][0] == sizevar) or (vs[1][1] == '1' and vs[0][0] == sizevar))
                lp = fread_loop_exit(n)
                if lp is not None:
                    if lp[1]:
                        ctx.ok(R3, inst + ': fread loop', 'the read loop has an exit that does not depend on fread delivering bytes', tu.loc(lp[0]))
                    else:
                        ctx.violation(R3, inst + ': fread loop', 'fread is retried in a loop whose only exit is the byte count reaching numBytes: '
                                      'fread returns 0 at end of file and on a read error, so a file that yields fewer bytes than ftell '
                                      'reported (truncated meanwhile, a pseudo file, an I/O error) makes readXML spin forever', tu.loc(lp[0]),
                                      key='%s|%s|readXML|fread-loop-no-exit' % (R3, XML_FILE))
                if okb:
                    ctx.ok(R3, inst + ': fread', 'at most numBytes bytes are read into the numBytes+1 buffer', tu.loc(n))
                else:
                    ctx.violation(R3, inst + ': fread', 'fread may store more than numBytes bytes into the buffer (size*count is not 1*numBytes): '
                                  'the terminating NUL can be overwritten', tu.loc(n), key='%s|%s|readXML|fread-bound' % (R3, XML_FILE))
            if q == 'rkcommon::xml::parseXML':
                nparse += 1
                if len(args) == 2 and data_of(args[1]) == parsed_vec:
                    ctx.ok(R3, inst + ': parse', 'parser entered at the start of the NUL-terminated buffer', tu.loc(n))
                else:
                    ctx.violation(R3, inst + ': parse', 'parseXML is not entered on the NUL-terminated buffer built by readXML',
                                  tu.loc(n), key='%s|%s|readXML|parse-arg' % (R3, XML_FILE))
    if nread != 1 or nparse != 1:
        ctx.undecided(R3, inst, 'expected exactly one fread into the buffer and one parseXML call (found %d / %d)' % (nread, nparse), tu.fn_loc(f))
    # --- every throw reachable from readXML is std::runtime_error
    nthrow = 0
    for fn in reachable_fns(tu, f):
        if not tu.fn_file(fn).startswith('rkcommon/'):
            continue
        for n in tu.walk(tu.body(fn)):
            if n.get('kind') == 'CXXThrowExpr':
                nthrow += 1
                ty = tu.sd(n).get('tty')
                where = '%s %s' % (fn['q'].replace('rkcommon::', ''), fn['fty'])
                if ty is None or ty == 'std::runtime_error':
                    ctx.ok(R3, 'throw in ' + where, 'throws %s' % (ty or '(rethrow)'), tu.loc(n))
                else:
                    ctx.violation(R3, 'throw in ' + where, 'throws %s, not std::runtime_error: a parse error would escape readXML\'s '
                                  'documented error type' % ty, tu.loc(n),
                                  key='%s|%s|%s|throw-type' % (R3, tu.fn_file(fn), where))
    ctx.floor(R3, nthrow, 8, 'throw expressions reachable from readXML on the pinned tree: 11')


# ============================================================================================
#  R-C16-4: pure output parameters are assigned on every successful return
# ============================================================================================
STR_OUT = ('std::basic_string<char> &', 'std::string &')
WRITERS = {'operator=', 'assign', 'clear', 'swap'}


class OutParams:
    """For every function reachable from parseXML with a non-const std::string& parameter that the function never
    reads (a pure output parameter): on every normal return - every return of `true` for bool functions - the
    parameter has been assigned (directly, or by a callee to whose own pure output parameter it was forwarded).
    A stale value surviving a 'successful' parse step would be reported as the value of the next property/name."""

    def __init__(self, tu):
        self.tu = tu
        self.memo = {}
        self.inprog = set()

    def outs_of(self, f):
        return [p for p in f.get('params', []) if p['ct'] in STR_OUT]

    def param_ref(self, e, ids):
        e = self.tu.strip(e, casts=True)
        if e is not None and e.get('kind') == 'DeclRefExpr':
            i = e.get('referencedDecl', {}).get('id')
            if i in ids:
                return i
        return None

    def analyse(self, f):
        """returns dict param id -> {'pure': bool, 'outcomes': set of (ret, written)}"""
        if f['id'] in self.memo:
            return self.memo[f['id']]
        if f['id'] in self.inprog:
            return None
        self.inprog.add(f['id'])
        tu = self.tu
        g = tu.cfg(f)
        ids = {p['id'] for p in self.outs_of(f)}
        reads = set()
        # classify every use of an output parameter
        write_nodes = {}     # node id -> (param id, 'write')
        fwd_nodes = {}       # call node id -> [(param id, callee, callee param id)]
        for b, i, n in g.stmts():
            k = n.get('kind')
            if k in ('CXXOperatorCallExpr', 'CXXMemberCallExpr'):
                sd, obj, args = tu.call_parts(n)
                name = sd.get('q', '').split('::')[-1]
                pid = self.param_ref(obj, ids) if obj is not None else None
                if pid is not None and name in WRITERS and 'basic_string' in sd.get('q', ''):
                    write_nodes[n['id']] = pid
                    continue
            if k in ('CallExpr', 'CXXMemberCallExpr', 'CXXOperatorCallExpr', 'CXXConstructExpr'):
                sd, obj, args = tu.call_parts(n)
                cf = tu.callee_fn(n)
                for idx, a in enumerate(args):
                    pid = self.param_ref(a, ids)
                    if pid is None:
                        continue
                    if cf is not None and tu.cfg(cf) is not None and idx < len(cf['params']) and cf['params'][idx]['ct'] in STR_OUT:
                        fwd_nodes.setdefault(n['id'], []).append((pid, cf, cf['params'][idx]['id']))
        used_ok = set()
        for nid in list(write_nodes) + list(fwd_nodes):
            n = tu.node(nid)
            sd, obj, args = tu.call_parts(n)
            for x in ([obj] if obj is not None else []) + list(args):
                y = tu.strip(x, casts=True)
                if y is not None and y.get('kind') == 'DeclRefExpr' and y.get('referencedDecl', {}).get('id') in ids:
                    used_ok.add(y['id'])
        for n in tu.walk(tu.body(f)):
            if n.get('kind') == 'DeclRefExpr' and n.get('referencedDecl', {}).get('id') in ids and n['id'] not in used_ok:
                reads.add(n['referencedDecl']['id'])
        # callee summaries
        callee_sum = {}
        for nid, lst in fwd_nodes.items():
            for (pid, cf, cpid) in lst:
                r = self.analyse(cf)
                callee_sum[(nid, pid)] = None if r is None else r.get(cpid)

        def transfer(blk, i, el, s):
            if el[0] != 'S':
                return [s]
            n = tu.node(el[1])
            if n is None:
                return [s]
            written, calls, ret = s
            k = n.get('kind')
            if k == 'CXXThrowExpr':
                return []
            if n['id'] in write_nodes:
                return [(written | {write_nodes[n['id']]}, calls, ret)]
            if n['id'] in fwd_nodes:
                outs = [(written, None)]
                for (pid, cf, cpid) in fwd_nodes[n['id']]:
                    cs = callee_sum.get((n['id'], pid))
                    nxt = []
                    for (w, r) in outs:
                        if cs is None or not cs['pure']:
                            nxt.append((w, r))      # in/out or recursive callee: nothing known
                            continue
                        for (cret, cw) in cs['outcomes']:
                            if r is not None and cret is not None and r != cret:
                                continue
                            nxt.append((w | {pid} if cw else w, cret if r is None else r))
                    outs = nxt
                res = []
                for (w, r) in outs:
                    c2 = dict(calls)
                    if isinstance(r, bool):
                        c2[n['id']] = r
                    res.append((frozenset(w), tuple(sorted(c2.items())), ret))
                return res
            if k == 'ReturnStmt':
                ks = tu.kids(n)
                return [(written, calls, self.ev(ks[0], dict(calls)) if ks else None)]
            return [s]

        def refine(blk, si, s):
            if blk.cond is None or len(blk.succ) != 2:
                return [s]
            v = self.ev(tu.node(blk.cond), dict(s[1]))
            if v is None or v == (si == 0):
                return [s]
            return []

        res = g.explore([(frozenset(), (), None)], transfer, refine)
        out = {}
        for pid in ids:
            outcomes = set()
            for (s, via) in res.exits:
                if g.blocks[via].noret:
                    continue
                outcomes.add((s[2], pid in s[0]))
            out[pid] = {'pure': pid not in reads, 'outcomes': outcomes}
        self.inprog.discard(f['id'])
        self.memo[f['id']] = out
        return out

    def ev(self, e, calls, depth=0):
        tu = self.tu
        e = tu.strip(e, casts=True)
        if e is None or depth > 8:
            return None
        if e['id'] in calls:
            return calls[e['id']]
        k = e.get('kind')
        if k == 'CXXBoolLiteralExpr':
            return bool(e.get('value'))
        if k == 'UnaryOperator' and e.get('opcode') == '!':
            v = self.ev(tu.kids(e)[0], calls, depth + 1)
            return None if v is None else not v
        return None


def check_outparams(ctx, tu):
    R4 = 'R-C16-4'
    ctx.describe(R4, 'a pure output parameter (std::string& never read by the function) of a parsing function is assigned on '
                     'every successful return, so no value of a previous parse step can survive into the next one')
    entry = tu.fns(q='rkcommon::xml::parseXML')
    if len(entry) != 1:
        return
    op = OutParams(tu)
    n = 0
    for f in sorted(reachable_fns(tu, entry[0]), key=lambda x: x['l']):
        if tu.fn_file(f) != XML_FILE or not op.outs_of(f):
            continue
        r = op.analyse(f)
        for p in op.outs_of(f):
            info = r[p['id']]
            inst = '%s %s: parameter `%s`' % (f['q'].replace('rkcommon::', ''), f['fty'], p['name'])
            n += 1
            if not info['pure']:
                ctx.ok(R4, inst, 'in/out parameter (read by the function): no obligation', tu.fn_loc(f), nontrivial=False)
                continue
            is_bool = f['fty'].startswith('bool')
            bad = [(ret, w) for (ret, w) in info['outcomes'] if not w and (ret is not False if is_bool else True)]
            if bad and is_bool and all(w for (ret, w) in info['outcomes'] if ret is False) and \
                    all(ret is True for (ret, w) in info['outcomes'] if not w):
                # the opposite convention: `true` means "nothing to report", the parameter is filled on `false`.  No earlier value can
                # survive if every call hands over a variable that was declared (default-constructed) just for this call.
                pidx = [i for i, q in enumerate(f['params']) if q['id'] == p['id']][0]
                fresh = True
                ncall = 0
                for g in reachable_fns(tu, entry[0]):
                    body = tu.body(g)
                    if body is None or tu.fn_file(g) != XML_FILE:
                        continue
                    order = list(tu.walk(body))
                    for i, x in enumerate(order):
                        if x.get('kind') == 'CallExpr' and (tu.callee_fn(x) or {}).get('id') == f['id']:
                            ncall += 1
                            args = tu.call_parts(x)[2]
                            d = tu.ref_decl(args[pidx]) if pidx < len(args) else None
                            dn = tu.nodes.get(d) if d else None
                            inside = {y['id'] for y in tu.walk(x)}
                            if dn is None or dn.get('kind') != 'VarDecl' or tu.kids(dn) and any(
                                    k.get('kind') not in ('CXXConstructExpr',) or tu.kids(k) for k in tu.kids(dn)):
                                fresh = False
                                continue
                            seen_decl = False
                            for y in order[:i]:
                                if y is dn:
                                    seen_decl = True
                                elif seen_decl and y.get('kind') == 'DeclRefExpr' and y.get('referencedDecl', {}).get('id') == d and y['id'] not in inside:
                                    fresh = False
                            if not seen_decl:
                                fresh = False
                if fresh and ncall:
                    ctx.ok(R4, inst, 'filled when the function returns false (true reports a match and leaves it alone); each of the %d call(s) '
                           'passes a variable default-constructed for that call, so no earlier value can survive' % ncall, tu.fn_loc(f))
                    continue
            if bad:
                ctx.violation(R4, inst, 'the function can return %s without having assigned its output parameter `%s`: the caller '
                              'keeps the value of an earlier parse step' % ('successfully' if not is_bool else 'true/unknown', p['name']),
                              tu.fn_loc(f), key='%s|%s|%s|unassigned-out:%s' % (R4, XML_FILE, f['q'].replace('rkcommon::', '') + ' ' + f['fty'], p['name']))
            else:
                ctx.ok(R4, inst, 'assigned on every successful return (outcomes: %s)' % sorted(info['outcomes'], key=repr), tu.fn_loc(f))
    ctx.floor(R4, n, 2, 'output parameters of the token producers (parseString, parseIdentifier; parseProp adds two on the pinned tree: 4)')


# ============================================================================================
#  R-C16-6 / R-C16-7: nothing turns a parse error into termination or into state that outlives the call
# ============================================================================================
CALLS = ('CallExpr', 'CXXMemberCallExpr', 'CXXOperatorCallExpr', 'CXXConstructExpr', 'CXXTemporaryObjectExpr')


def _in_try(tu, n, stop):
    cur = n
    while cur is not None and cur.get('id') != stop:
        p = tu.par(cur)
        if p is not None and p.get('kind') == 'CXXTryStmt' and tu.kids(p) and tu.kids(p)[0] is cur:
            return True
        cur = p
    return False


def _walk_no_lambda(tu, n):
    stack = [n]
    while stack:
        x = stack.pop()
        if not isinstance(x, dict):
            continue
        yield x
        if x.get('kind') == 'LambdaExpr':
            continue
        stack.extend(reversed(x.get('inner', ())))


class ExcFacts:
    """may-throw relation over a set of functions: a function may throw if it contains a throw-expression outside any try block, or
    calls (outside any try block) a function of the set that may throw."""

    def __init__(self, tu, fns):
        self.tu = tu
        self.fns = {f['id']: f for f in fns if tu.body(f) is not None}
        self.throws = {}
        self.calls = {}
        self.has_try = False
        for f in self.fns.values():
            b = tu.body(f)
            th, cs = [], []
            for n in _walk_no_lambda(tu, b):
                k = n.get('kind')
                if k == 'CXXTryStmt':
                    self.has_try = True
                if k == 'CXXThrowExpr' and not _in_try(tu, n, b['id']):
                    th.append(n)
                elif k in CALLS:
                    cf = tu.callee_fn(n)
                    if cf is not None and cf['id'] in self.fns and not _in_try(tu, n, b['id']):
                        cs.append((n, cf))
            self.throws[f['id']] = th
            self.calls[f['id']] = cs
        self.may = {i: bool(t) for i, t in self.throws.items()}
        changed = True
        while changed:
            changed = False
            for i, cs in self.calls.items():
                if not self.may[i] and any(self.may[c['id']] for _, c in cs):
                    self.may[i] = changed = True

    def witness(self, f, depth=0):
        """call chain from f to a throw-expression"""
        tu = self.tu
        if self.throws[f['id']]:
            n = self.throws[f['id']][0]
            return ['%s at %s' % (tu.show(n)[:80], tu.loc(n))]
        for n, c in self.calls[f['id']]:
            if self.may[c['id']] and depth < 30:
                return ['%s calls %s at %s' % (f['q'].split('::')[-1], c['q'].split('::')[-1], tu.loc(n))] + self.witness(c, depth + 1)
        return []

    def is_barrier(self, f):
        d = self.tu.node(f['id']) or {}
        fty = f.get('fty', '')
        if 'noexcept(false)' in fty.replace(' ', ''):
            return False
        return bool(re.search(r'\bnoexcept\b', fty)) or bool(re.search(r'\bthrow\(\)', fty)) or d.get('kind') == 'CXXDestructorDecl'


def noexcept_findings(tu, fns):
    ex = ExcFacts(tu, fns)
    out = []
    for f in ex.fns.values():
        if ex.is_barrier(f) and ex.may[f['id']]:
            out.append((f, ex.witness(f)))
    return ex, out


class StaticState:
    """mutable variables with static or thread storage duration used by a set of functions; for integer counters: net effect per
    function (CFG exploration with callee summaries) and the points where an exception can leave with the counter changed."""

    def __init__(self, tu, ex):
        self.tu = tu
        self.ex = ex
        self.vars = {}
        self.uses = {}
        for f in ex.fns.values():
            for n in tu.walk(tu.body(f)):
                if n.get('kind') != 'DeclRefExpr':
                    continue
                rd = n.get('referencedDecl', {})
                if rd.get('kind') != 'VarDecl':
                    continue
                d = tu.node(rd.get('id'))
                if d is None or d.get('kind') != 'VarDecl':
                    continue
                pk = (tu.par(d) or {}).get('kind')
                static = d.get('storageClass') == 'static' or d.get('tls') or pk in ('NamespaceDecl', 'TranslationUnitDecl', 'LinkageSpecDecl')
                qt = d.get('type', {}).get('qualType', '')
                if not static or qt.startswith('const ') or d.get('constexpr') or qt.endswith('&') or ' *const' in qt and qt.startswith('const '):
                    continue
                self.vars[d['id']] = d
                self.uses.setdefault(d['id'], []).append((f, n))
        self.memo = {}
        self.inprog = set()
        self.raii_cache = {}

    def is_read(self, n):
        tu = self.tu
        p = tu.par(n)
        while p is not None and p.get('kind') in ('ImplicitCastExpr', 'ParenExpr'):
            n, p = p, tu.par(p)
        if p is None:
            return False
        k = p.get('kind')
        if k == 'UnaryOperator' and p.get('opcode') in ('++', '--'):
            return self.is_read(p) if (tu.par(p) or {}).get('kind') not in ('CompoundStmt', 'ForStmt', 'IfStmt', 'WhileStmt', None) else False
        if k in ('BinaryOperator', 'CompoundAssignOperator') and p.get('opcode') in ('=', '+=', '-=') and tu.kids(p)[0] is n:
            return False
        if k in ('CompoundStmt',):
            return False
        return True

    MUTATORS = {'resize', 'assign', 'push_back', 'emplace_back', 'clear', 'insert', 'erase', 'reserve', 'swap', 'append', 'pop_back',
                'emplace', 'operator=', 'operator+=', 'shrink_to_fit', 'reset', 'replace', 'push', 'pop', 'operator[]', 'at', 'data', 'begin',
                'end', 'front', 'back'}

    def is_write(self, n):
        """the use changes the object, or hands out non-const access to it: assignment / increment, a mutating or access-granting member
        called on the (non-const) object, its address taken"""
        tu = self.tu
        p = tu.par(n)
        while p is not None and p.get('kind') in ('ImplicitCastExpr', 'ParenExpr'):
            if p.get('kind') == 'ImplicitCastExpr' and 'const' in p.get('type', {}).get('qualType', '').split('<')[0] and \
                    p.get('castKind') == 'NoOp':
                return False        # viewed as const from here on
            n, p = p, tu.par(p)
        if p is None:
            return False
        k = p.get('kind')
        if k == 'UnaryOperator' and p.get('opcode') in ('++', '--', '&'):
            return True
        if k in ('BinaryOperator', 'CompoundAssignOperator') and '=' in p.get('opcode', '') and \
                p.get('opcode') not in ('==', '!=', '<=', '>=') and tu.kids(p)[0] is n:
            return True
        if k == 'MemberExpr':
            pp = tu.par(p)
            if pp is not None and pp.get('kind') == 'CXXMemberCallExpr':
                return (p.get('name') or '') in self.MUTATORS
        if k == 'CXXOperatorCallExpr':
            q = tu.sd(p).get('q', '').split('::')[-1]
            ks = tu.kids(p)
            return q in self.MUTATORS and len(ks) > 1 and tu.strip(ks[1], casts=True) is tu.strip(n, casts=True)
        return False

    def try_touches(self, n, stop, v):
        """n lies in the try block of a try statement that mentions v (a handler might restore it)"""
        tu = self.tu
        cur = n
        while cur is not None and cur.get('id') != stop:
            p = tu.par(cur)
            if p is not None and p.get('kind') == 'CXXTryStmt' and tu.kids(p) and tu.kids(p)[0] is cur:
                if any(x.get('kind') == 'DeclRefExpr' and x.get('referencedDecl', {}).get('id') == v for x in tu.walk(p)):
                    return True
            cur = p
        return False

    def delta_of(self, n, v):
        """effect of statement node n on variable v: int delta, 'abs', or None (no direct effect)"""
        tu = self.tu
        k = n.get('kind')
        if k == 'UnaryOperator' and n.get('opcode') in ('++', '--') and tu.ref_decl(tu.kids(n)[0]) == v:
            return 1 if n['opcode'] == '++' else -1
        if k == 'CompoundAssignOperator' and n.get('opcode') in ('+=', '-=') and tu.ref_decl(tu.kids(n)[0]) == v:
            c = tu.sd(tu.strip(tu.kids(n)[1], casts=True)).get('cv')
            if c is None:
                return 'abs'
            return int(c) if n['opcode'] == '+=' else -int(c)
        if k == 'BinaryOperator' and n.get('opcode') == '=' and tu.ref_decl(tu.kids(n)[0]) == v:
            return 'abs'
        return None

    def dtor_of(self, ty):
        t = ty.replace('const ', '').strip()
        for f in self.ex.fns.values():
            if f.get('rect') == t and (self.tu.node(f['id']) or {}).get('kind') == 'CXXDestructorDecl':
                return f
        for f in self.tu.functions.values():
            if f.get('rect') == t and (self.tu.node(f['id']) or {}).get('kind') == 'CXXDestructorDecl' and self.tu.cfg(f) is not None:
                return f
        return None

    def raii(self, ctor, v):
        """True if `ctor`'s class pairs the constructor's effect on v with the opposite effect in its destructor"""
        key = (ctor['id'], v)
        if key not in self.raii_cache:
            self.raii_cache[key] = False
            e = self.effect(ctor, v)
            d = self.dtor_of(ctor.get('rect', '')) if ctor.get('rect') else None
            if d is not None and e and all(isinstance(x, int) for x in e) and len(e) == 1 and list(e)[0] != 0:
                de = self.effect(d, v)
                self.raii_cache[key] = de == {-list(e)[0]}
        return self.raii_cache[key]

    def effect(self, f, v, findings=None):
        """set of net effects (int or 'abs') of f on v over its normal exits"""
        tu = self.tu
        key = (f['id'], v)
        if findings is None and key in self.memo:
            return self.memo[key]
        if key in self.inprog:
            return {0}
        g = tu.cfg(f)
        if g is None:
            return {0}
        self.inprog.add(key)
        body = tu.body(f)

        def add(st, d):
            if st == 'abs' or d == 'abs':
                return 'abs'
            r = st + d
            return r if -4 <= r <= 4 else 'abs'

        def transfer(blk, i, e, st):
            if e[0] == 'AD':
                d = self.dtor_of(e[3])
                if d is None:
                    return [st]
                ctor_raii = any(self.raii(c, v) for c in tu.functions.values()
                                if c.get('rect') == d.get('rect') and (tu.node(c['id']) or {}).get('kind') == 'CXXConstructorDecl' and tu.cfg(c) is not None)
                if ctor_raii:
                    return [st]
                return [add(st, x) for x in self.effect(d, v)]
            if e[0] != 'S':
                return [st]
            n = tu.node(e[1])
            if n is None:
                return [st]
            d = self.delta_of(n, v)
            if d is not None:
                return [add(st, d)]
            k = n.get('kind')
            if k == 'CXXThrowExpr':
                if findings is not None and isinstance(st, int) and st != 0 and not self.try_touches(n, body['id'], v):
                    findings.append((f, n, st, None))
                return []
            if k in CALLS:
                cf = tu.callee_fn(n)
                if cf is None or tu.cfg(cf) is None:
                    return [st]
                if k in ('CXXConstructExpr', 'CXXTemporaryObjectExpr') and (tu.par(n) or {}).get('kind') == 'VarDecl' and self.raii(cf, v):
                    return [st]
                if findings is not None and isinstance(st, int) and st != 0 and cf['id'] in self.ex.may and self.ex.may[cf['id']] \
                        and not self.try_touches(n, body['id'], v):
                    findings.append((f, n, st, cf))
                return [add(st, x) for x in self.effect(cf, v)]
            return [st]

        try:
            res = g.explore([0], transfer)
            out = set(s for s, _ in res.exits)
        except RuntimeError:
            out = {'abs'}
        self.inprog.discard(key)
        if findings is None:
            self.memo[key] = out
        return out


def state_findings(tu, ex, entry):
    """[(kind, var decl, fn, node, detail)] for the mutable static/thread-local variables used under `entry`"""
    ss = StaticState(tu, ex)
    out = []
    for vid, d in sorted(ss.vars.items(), key=lambda kv: kv[1].get('name', '')):
        name = d.get('name')
        qt = d.get('type', {}).get('qualType', '')
        uses = ss.uses[vid]
        if not d.get('tls') and not re.search(r'atomic|mutex|once_flag', qt):
            ws = [(f, n) for f, n in uses if ss.is_write(n)]
            if ws:
                fset = {f['id']: f for f, _ in uses}
                locked = any(
                    (x.get('kind') == 'VarDecl' and re.search(r'lock_guard|unique_lock|scoped_lock', x.get('type', {}).get('qualType', ''))) or
                    (x.get('kind') in ('CallExpr', 'CXXMemberCallExpr') and tu.sd(x).get('q', '').split('::')[-1] in ('lock', 'call_once'))
                    for f in fset.values() for x in tu.walk(tu.body(f)))
                if not locked:
                    out.append(('shared', d, ws[0][0], ws[0][1], None))
                    continue
        if 'atomic' in qt:
            def discarded_update(n):
                p1 = tu.par(n)
                while p1 is not None and p1.get('kind') in ('ImplicitCastExpr', 'ParenExpr'):
                    p1 = tu.par(p1)
                call = None
                if p1 is not None and p1.get('kind') == 'MemberExpr' and (p1.get('name') or '') in ('fetch_add', 'fetch_sub', 'store', 'operator++', 'operator--', 'operator+=', 'operator-='):
                    call = tu.par(p1)
                elif p1 is not None and p1.get('kind') == 'CXXOperatorCallExpr' and tu.sd(p1).get('q', '').split('::')[-1] in ('operator++', 'operator--', 'operator+=', 'operator-='):
                    call = p1
                if call is None:
                    return False
                pp = tu.par(call)
                while pp is not None and pp.get('kind') in ('ExprWithCleanups', 'ImplicitCastExpr', 'ParenExpr'):
                    pp = tu.par(pp)
                return pp is not None and pp.get('kind') in ('CompoundStmt', 'IfStmt', 'ForStmt', 'WhileStmt', 'CStyleCastExpr')
            if all(discarded_update(n) for _, n in uses):
                out.append(('ok', d, None, None, 'atomic counter that is only updated (results discarded): cannot influence a result'))
                continue
        if not any(ss.is_read(n) for _, n in uses):
            out.append(('ok', d, None, None, 'written but never read by the parser: cannot influence a result'))
            continue
        if qt not in ('int', 'unsigned int', 'long', 'unsigned long', 'size_t', 'std::size_t', 'short', 'unsigned', 'long long', 'unsigned long long'):
            out.append(('und', d, uses[0][0], uses[0][1], 'mutable %s `%s` of type %s is read by the parser' % (
                'thread-local' if d.get('tls') else 'static', name, qt)))
            continue
        if any(x.get('kind') == 'CXXTryStmt' and any(y.get('kind') == 'DeclRefExpr' and y.get('referencedDecl', {}).get('id') == vid
                                                     for y in tu.walk(x))
               for f in ex.fns.values() for x in tu.walk(tu.body(f))):
            out.append(('und', d, uses[0][0], uses[0][1], 'counter `%s` is handled inside try/catch blocks' % name))
            continue
        bad = []
        for f in ex.fns.values():
            fl = []
            ss.effect(f, vid, fl)
            bad.extend(fl)
        e = ss.effect(entry, vid)
        seen = set()
        for f, n, st, cf in bad:
            k = (f['id'], n['id'])
            if k in seen:
                continue
            seen.add(k)
            out.append(('exc', d, f, n, (st, cf)))
        if e != {0} and not bad:
            if all(isinstance(x, int) for x in e):
                out.append(('drift', d, entry, None, sorted(e)))
            else:
                out.append(('und', d, entry, None, 'net effect of %s on `%s` not determined' % (entry['q'], name)))
        elif not bad:
            out.append(('ok', d, None, None, 'restored on every normal exit; no throwing call while it is changed (or changed only by a '
                                             'constructor/destructor pair of an automatic object)'))
    return out


def check_exception_discipline(ctx, tu):
    R6, R7 = 'R-C16-6', 'R-C16-7'
    ctx.describe(R6, 'no function with a non-throwing exception specification (noexcept, destructor) on the way from readXML can reach a '
                     'throw-expression: a parse error must surface as std::runtime_error, not as std::terminate')
    ctx.describe(R7, 'no mutable static or thread-local state read by the parser is left changed when readXML returns or throws: the result '
                     'depends on the file contents only, not on earlier calls')
    fs = tu.fns(q='rkcommon::xml::readXML')
    if len(fs) != 1 or tu.cfg(fs[0]) is None:
        ctx.broken('%s: rkcommon::xml::readXML not found' % R6)
        return
    entry = fs[0]
    fns = [f for f in reachable_fns(tu, entry) if tu.fn_file(f).startswith('rkcommon/')]
    ex, found = noexcept_findings(tu, fns)
    nb = 0
    for f in ex.fns.values():
        if ex.is_barrier(f):
            nb += 1
            if not ex.may[f['id']]:
                ctx.ok(R6, '%s %s' % (f['q'].replace('rkcommon::', ''), f['fty']), 'non-throwing specification and no reachable throw-expression',
                       tu.fn_loc(f), nontrivial=False)
    for f, chain in found:
        inst = '%s %s' % (f['q'].replace('rkcommon::', ''), f['fty'])
        ctx.violation(R6, inst, 'the function cannot let an exception out (%s) but a parse error is thrown underneath it: %s; on such a file '
                      'readXML calls std::terminate instead of throwing std::runtime_error' % (
                          'noexcept' if 'noexcept' in f['fty'] else 'destructor', ' -> '.join(chain)), tu.fn_loc(f),
                      key='%s|%s|%s|noexcept-barrier' % (R6, tu.fn_file(f), inst), path=['entry readXML'] + chain)
    ctx.ok(R6, 'xml::readXML call graph', '%d function(s) reachable in rkcommon/, %d may throw a parse error, %d with a non-throwing '
           'specification, none of those can reach a throw' % (len(ex.fns), sum(1 for v in ex.may.values() if v), nb), tu.fn_loc(entry)) \
        if not found else None
    ctx.floor(R6, len(ex.fns), 12, 'functions reachable from readXML inside rkcommon/ (about 30 on the pinned tree)')
    ctx.floor(R6 + ' throwing', sum(1 for v in ex.may.values() if v), 6, 'parser functions that can throw a parse error')
    sf = state_findings(tu, ex, entry)
    for kind, d, f, n, det in sf:
        name = d.get('name')
        inst = 'static `%s`' % name
        loc = tu.loc(n) if n is not None else tu.loc(d)
        key = '%s|%s|%s|' % (R7, XML_FILE, name)
        if kind == 'ok':
            ctx.ok(R7, inst, det, loc)
        elif kind == 'und':
            ctx.undecided(R7, inst, det, loc)
        elif kind == 'exc':
            st, cf = det
            ctx.violation(R7, inst, '%s changes `%s` by %+d and then %s while the change is still pending; the matching restore is skipped when '
                          'that throws, so after a rejected document the %s counter keeps its value and a later readXML call on the same '
                          'thread behaves differently for the same file' % (
                              f['q'].replace('rkcommon::', ''), name, st,
                              ('calls %s, which can throw a parse error (%s),' % (cf['q'].split('::')[-1], ' -> '.join(ex.witness(cf))[:200]))
                              if cf is not None else 'throws', 'thread-local' if d.get('tls') else 'static'),
                          loc, key=key + 'unbalanced-on-exception')
        elif kind == 'shared':
            ctx.violation(R7, inst, '`%s` (%s) has static storage duration - one object for all threads - and %s changes it (`%s`) without '
                          'taking a lock: two readXML calls running at the same time on different files share it, so one call reads what the '
                          'other wrote (names and contents of the other file, mismatched tags) or uses storage the other has just '
                          'reallocated' % (name, d.get('type', {}).get('qualType', '')[:60], f['q'].replace('rkcommon::', ''),
                                           tu.show(tu.par(n) or n)[:50]), loc, key=key + 'shared-static-unsynchronised')
        elif kind == 'drift':
            ctx.violation(R7, inst, 'readXML returns with `%s` changed by %s: every call shifts state that the parser reads' % (name, det), loc,
                          key=key + 'drift')
    if not sf:
        ctx.ok(R7, 'xml::readXML call graph', 'no mutable static or thread-local variable is used by the %d functions reachable from readXML' % len(ex.fns),
               tu.fn_loc(entry))
    return ex


def check_positive_examples(ctx):
    """the two rules above have no instance on the pinned tree; they must fire on the known-bad examples of drivers/c16_positive.cpp"""
    try:
        tu = ctx.front.parse('drivers/c16_positive.cpp', 'TBB')
    except Exception as e:      # noqa
        ctx.broken('R-C16-6/7 positive examples: %s' % str(e)[:300])
        return
    es = [f for f in tu.functions.values() if f['q'] == 'rkverif_c16::entry']
    if len(es) != 1:
        ctx.broken('R-C16-6/7 positive examples: entry not found')
        return
    fns = reachable_fns(tu, es[0])
    ex, found = noexcept_findings(tu, fns)
    names = sorted(f['q'].split('::')[-1] for f, _ in found)
    if names != ['barrier']:
        ctx.broken('R-C16-6 self-check: expected exactly `barrier` to be reported on drivers/c16_positive.cpp, got %s' % names)
    sf = state_findings(tu, ex, es[0])
    excs = sorted(set(f['q'].split('::')[-1] for k, d, f, n, det in sf if k == 'exc'))
    if excs != ['counted']:
        ctx.broken('R-C16-7 self-check: expected exactly `counted` to be reported on drivers/c16_positive.cpp, got %s (%s)' % (
            excs, [(k, det) for k, d, f, n, det in sf if k != 'exc']))
    else:
        ctx.ok('R-C16-6', 'self-check', 'the rules fire on the known-bad examples (barrier, counted) and not on the RAII guard', 'drivers/c16_positive.cpp',
               nontrivial=False)
    got = []
    check_local_buffers(ctx, tu, [f for f in tu.functions.values() if f['q'].startswith('rkverif_c16::copy_')], collect=got)
    verdicts = {}
    for f, node, v in got:
        verdicts.setdefault(f['q'].split('::')[-1], set()).add(v)
    want = {'copy_off_by_one': {'ok', 'bad'}, 'copy_ok': {'ok'}, 'copy_heap_short': {'ok', 'bad'}}
    if verdicts != want:
        ctx.broken('R-C16-9 self-check: verdicts on drivers/c16_positive.cpp are %s, expected %s' % (verdicts, want))
    tv = {}
    for f, lp, d, nm, cond in trim_loops(tu, [f for f in tu.functions.values() if f['q'].startswith('rkverif_c16::trim_')]):
        tv[f['q'].split('::')[-1]] = trim_verdict(tu, d, cond)[0]
    want = {'trim_le_space': 'bad', 'trim_isspace': 'ok', 'trim_unsigned_le_space': 'ok', 'trim_helper': 'ok', 'trim_not_graph': 'bad'}
    tk = {}
    for f, n, v, why in token_sites(tu, [f for f in tu.functions.values() if f['q'].startswith('rkverif_c16::tok_')]):
        tk[f['q'].split('::')[-1]] = v
    wantk = {'tok_quote_in_value': 'bad', 'tok_value': 'ok', 'tok_begin_plus_one': 'ok', 'tok_ident': 'ok', 'tok_end_behind': 'bad',
             'tok_helper_scan': 'ok'}
    if tk != wantk:
        ctx.broken('R-C16-11 self-check: verdicts on drivers/c16_positive.cpp are %s, expected %s' % (tk, wantk))
    fv = {}
    for f, n, v, why in formatted_length_sites(tu, [f for f in tu.functions.values() if f['q'].startswith('rkverif_c16::fmt_')]):
        fv[f['q'].split('::')[-1]] = v
    wantf = {'fmt_unclamped': 'bad', 'fmt_clamped': 'skip'}
    if fv != wantf:
        ctx.broken('R-C16-15 self-check: verdicts on drivers/c16_positive.cpp are %s, expected %s' % (fv, wantf))
    cv = {}
    for f, n, v, why in conversion_sites(tu, [f for f in tu.functions.values() if f['q'].startswith('rkverif_c16::conv_')]):
        cv[f['q'].split('::')[-1]] = v
    wantc = {'conv_bare': 'bad', 'conv_converted': 'ok', 'conv_rethrown': 'bad'}
    if cv != wantc:
        ctx.broken('R-C16-16 self-check: verdicts on drivers/c16_positive.cpp are %s, expected %s' % (cv, wantc))
    sv = {}
    for f, n, v, why in stack_allocation_sites(tu, [f for f in tu.functions.values() if f['q'].startswith('rkverif_c16::stack_')]):
        sv[f['q'].split('::')[-1]] = v
    wants = {'stack_token': 'bad', 'stack_fixed': 'const'}
    if sv != wants:
        ctx.broken('R-C16-18 self-check: verdicts on drivers/c16_positive.cpp are %s, expected %s' % (sv, wants))
    bv = {}
    stores = [f for f in tu.functions.values() if f['q'].startswith('rkverif_c16::store_')]
    for f, n, v, why in buffer_store_sites(tu, stores, {'id': None}):
        bv.setdefault(f['q'].split('::')[-1], set()).add(v)
    wantb = {'store_restored_elsewhere': {'bad'}, 'store_restored_in_place': {'ok'}, 'store_other': {'undecided'}}
    if bv != wantb:
        ctx.broken('R-C16-19 self-check: verdicts on drivers/c16_positive.cpp are %s, expected %s' % (bv, wantb))
    if tv != want:
        ctx.broken('R-C16-10 self-check: verdicts on drivers/c16_positive.cpp are %s, expected %s' % (tv, want))


# ============================================================================================
#  R-C16-8: whitespace is skipped in front of the delimiters of a tag head / header
# ============================================================================================
# (function, delimiter, kind of site, mode, what a file looks like that needs it); frozen from the pinned tree, each confirmed by reading
# XML.cpp: these are the positions where the documented subset allows whitespace before a delimiter.  kind: 'call' = consume/expect with
# the character, 'cmp' = `*s == c`, 'lit' = consume(s, "c...").  mode 'all': every such site in the function; 'some': at least one.
WS_OBLIGATIONS = [
    ('parseProp', '=', 'call', 'all', "<a b = '1'/>"),
    ('parseProp', '"', 'call', 'all', '<a b= "1"/>'),
    ('parseProp', "'", 'call', 'all', "<a b= '1'/>"),
    ('parseNode', '/', 'cmp', 'all', "<a b='1' />"),
    ('parseNode', '>', 'lit', 'some', "<a b='1' >...</a>"),
    ('parseHeader', '?', 'lit', 'all', "<?xml version='1.0' ?>"),
]


def check_whitespace_tolerance(ctx, tu, eng):
    R = 'R-C16-8'
    ctx.describe(R, 'at the delimiters of a tag head / header (=, opening quote, /, >, ?>) the cursor is known not to stand on a whitespace '
                    'byte: whitespace allowed there has been skipped on every path (facts of the R-C16-1 abstract interpreter)')
    sites = {}
    for (fid, nid, c, kind), tols in eng.delims.items():
        fn = tu.functions[fid]
        sites.setdefault((chr(c), kind), []).append((fn['q'].split('::')[-1], nid, tols == {True}))
    n = 0
    for fname, d, kind, mode, example in WS_OBLIGATIONS:
        n += 1
        inst = '%s: %s before `%s`' % (fname, {'call': 'consume/expect', 'cmp': 'test', 'lit': 'literal consume'}[kind], d)
        here = [x for x in sites.get((d, kind), []) if x[0] == fname]
        key = '%s|%s|%s|%s-%s' % (R, XML_FILE, fname, kind, {'=': 'eq', '"': 'dquote', "'": 'squote', '/': 'slash', '>': 'gt', '?': 'qmark'}[d])
        if here:
            tol = [x for x in here if x[2]]
            bad = [x for x in here if not x[2]]
            if mode == 'some' and not tol:
                # the site that needs the skipping may have moved into a helper this function calls (e.g. the tag head read by its own function)
                callees = set()
                for fn_ in tu.functions.values():
                    if fn_['q'].split('::')[-1] == fname and tu.fn_file(fn_) == XML_FILE and tu.body(fn_) is not None:
                        for y in tu.walk(tu.body(fn_)):
                            if y.get('kind') in ('CallExpr', 'CXXMemberCallExpr'):
                                cf_ = tu.callee_fn(y)
                                if cf_ is not None and tu.fn_file(cf_) == XML_FILE:
                                    callees.add(cf_['q'].split('::')[-1])
                tol = [x for x in sites.get((d, kind), []) if x[0] in callees and x[2]]
            if (mode == 'all' and not bad) or (mode == 'some' and tol):
                ctx.ok(R, inst, '%d site(s), whitespace excluded at %s' % (len(here), 'all of them' if mode == 'all' else 'at least one'), tu.loc(here[0][1]))
            else:
                x = bad[0]
                ctx.violation(R, inst, '`%s` is reached on a path where the cursor may still stand on whitespace: whitespace that the documented '
                              'subset allows here is not skipped, so a file such as `%s` is rejected or misread' % (
                                  tu.show(tu.node(x[1]))[:60], example), tu.loc(x[1]), key=key)
            continue
        anywhere = [x for k2, v in sites.items() if k2[0] == d for x in v]
        if any(x[2] for x in anywhere):
            ctx.ok(R, inst, 'site moved: whitespace excluded before `%s` in %s' % (d, sorted(set(x[0] for x in anywhere if x[2]))), tu.loc(anywhere[0][1]))
        else:
            ctx.undecided(R, inst, 'no site that tests `%s` found in %s and none elsewhere with whitespace excluded' % (d, fname), XML_FILE)
    ctx.floor(R, n, len(WS_OBLIGATIONS), 'whitespace obligations')


# ============================================================================================
#  R-C16-9: writes into buffers the parser allocates itself stay inside them
# ============================================================================================
BUF_WRITERS = {'memcpy': (0, 2), 'memmove': (0, 2), 'memset': (0, 2), 'strncpy': (0, 2), '__builtin_memcpy': (0, 2)}


class LinExpr:
    """integer expressions as linear forms {atom: coeff} + const; atoms are canonical renderings of sub-expressions that are not
    linear (pointer differences, calls); const locals are replaced by their initialisers"""

    def __init__(self, tu):
        self.tu = tu

    def lin(self, e, depth=0):
        tu = self.tu
        e = tu.strip(e, casts=True)
        if e is None or depth > 20:
            return None
        k = e.get('kind')
        cv = tu.sd(e).get('cv')
        if cv is not None and k in ('IntegerLiteral', 'UnaryExprOrTypeTraitExpr', 'CharacterLiteral', 'DeclRefExpr', 'ConstantExpr'):
            return ({}, int(cv))
        if k == 'IntegerLiteral':
            return ({}, int(e.get('value')))
        if k == 'DeclRefExpr':
            d = tu.node(e.get('referencedDecl', {}).get('id'))
            if d is not None and d.get('kind') == 'VarDecl' and tu.kids(d) and d.get('type', {}).get('qualType', '').startswith('const ') \
                    and '*' not in d.get('type', {}).get('qualType', ''):
                return self.lin(tu.kids(d)[-1], depth + 1)
            return ({'v:' + str(e['referencedDecl'].get('id')): 1}, 0)
        if k == 'BinaryOperator' and e.get('opcode') in ('+', '-'):
            lt = tu.kids(e)[0].get('type', {}).get('qualType', '')
            a, b = self.lin(tu.kids(e)[0], depth + 1), self.lin(tu.kids(e)[1], depth + 1)
            ptr = '*' in (tu.sd(tu.strip(tu.kids(e)[0], casts=True)).get('ct') or lt)
            if ptr and e['opcode'] == '-':
                # pointer difference: one atom, named by the two pointer variables
                return ({'pd:' + tu.show(e): 1}, 0)
            if a is None or b is None:
                return None
            sg = 1 if e['opcode'] == '+' else -1
            d = dict(a[0])
            for t, c in b[0].items():
                d[t] = d.get(t, 0) + sg * c
            return ({t: c for t, c in d.items() if c}, a[1] + sg * b[1])
        if k == 'BinaryOperator' and e.get('opcode') == '*':
            a, b = self.lin(tu.kids(e)[0], depth + 1), self.lin(tu.kids(e)[1], depth + 1)
            if a is not None and b is not None:
                if not a[0]:
                    return ({t: c * a[1] for t, c in b[0].items()}, a[1] * b[1])
                if not b[0]:
                    return ({t: c * b[1] for t, c in a[0].items()}, a[1] * b[1])
        return ({'x:' + tu.show(e)[:80]: 1}, 0)

    @staticmethod
    def sub(a, b):
        d = dict(a[0])
        for t, c in b[0].items():
            d[t] = d.get(t, 0) - c
        return ({t: c for t, c in d.items() if c}, a[1] - b[1])


def check_local_buffers(ctx, tu, fns, R='R-C16-9', collect=None):
    """For every buffer a function allocates for itself (char a[N]; new char[n]) and every pointer that may hold it: each write through it
    (p[i] = .., *p = .., memcpy/memset/strncpy(p, .., n)) is inside the buffer: i < size, n <= size, decided from linear forms and the
    comparisons that guard the path (CFG exploration, path-sensitive in the comparisons and in ?: arms)."""
    le = LinExpr(tu)
    ninst = 0
    for f in fns:
        g = tu.cfg(f)
        body = tu.body(f)
        if g is None or body is None:
            continue
        arrays = {}
        for v in tu.walk(body):
            if v.get('kind') == 'VarDecl':
                m = re.match(r'^(?:unsigned |signed |const )*char ?\[(\d+)\]$', v.get('type', {}).get('qualType', ''))
                if m:
                    arrays[v['id']] = int(m.group(1))
        news = [x for x in tu.walk(body) if x.get('kind') == 'CXXNewExpr' and x.get('isArray') and 'char' in x.get('type', {}).get('qualType', '')]
        if not arrays and not news:
            continue
        inst = '%s %s' % (f['q'].replace('rkcommon::', ''), f['fty'])

        def size_of(e, st):
            """size (linear form) of the buffer an expression denotes, or None"""
            e = tu.strip(e, casts=True)
            if e is None:
                return None
            k = e.get('kind')
            if k == 'DeclRefExpr':
                d = e['referencedDecl'].get('id')
                if d in arrays:
                    return ({}, arrays[d])
                return thaw_lin(dict(st[0]).get(d))
            if k == 'CXXNewExpr' and e.get('isArray'):
                ks = tu.kids(e)
                return le.lin(ks[0]) if ks else None
            if k == 'ConditionalOperator':
                truth = dict(st[2]).get(e['id'])
                if truth is None:
                    return None
                return size_of(tu.kids(e)[1 if truth else 2], st)
            return None

        def freeze_lin(l):
            return None if l is None else (tuple(sorted(l[0].items())), l[1])

        def thaw_lin(l):
            return None if l is None else (dict(l[0]), l[1])

        findings = []

        def need(st, size, idx, strict, node, what):
            """idx < size (strict) or idx <= size on this path?"""
            if size is None or idx is None:
                return
            d = LinExpr.sub(size, idx)          # size - idx
            slack = 1 if strict else 0
            if not d[0]:
                if d[1] >= slack:
                    findings.append(('ok', node, what))
                else:
                    findings.append(('bad', node, '%s: the write ends %d byte(s) beyond the %s-byte buffer' % (what, slack - d[1], _lin_str(size))))
                return
            # size - idx = sum(atoms) + c: use the path constraints  (lin <= 0)
            for cons in st[1]:
                cl = thaw_lin(cons)
                # constraint  cl <= 0 ; we need  idx - size + slack <= 0, i.e. (-d) + slack <= 0
                want = ({t: -c for t, c in d[0].items()}, -d[1] + slack)
                if want[0] == cl[0]:
                    if want[1] <= cl[1]:
                        findings.append(('ok', node, what))
                    else:
                        findings.append(('bad', node, '%s: the guard on this path only gives %s <= %d, but the buffer has room for %s up to %d: '
                                         'at the boundary value the write lands %d byte(s) beyond the buffer' % (
                                             what, _lin_str((cl[0], 0)), -cl[1], _lin_str((cl[0], 0)), -want[1], want[1] - cl[1])))
                    return
            findings.append(('und', node, '%s: cannot relate the index/length %s to the buffer size %s on this path' % (what, _lin_str(idx), _lin_str(size))))

        def transfer(blk, i, el, st):
            if el[0] != 'S':
                return [st]
            n = tu.node(el[1])
            if n is None:
                return [st]
            k = n.get('kind')
            bufs = dict(st[0])
            if k == 'DeclStmt':
                for v in tu.kids(n):
                    if v.get('kind') == 'VarDecl' and tu.kids(v) and '*' in v.get('type', {}).get('qualType', ''):
                        sz = size_of(tu.kids(v)[-1], st)
                        if sz is not None:
                            bufs[v['id']] = freeze_lin(sz)
                return [(tuple(sorted(bufs.items())), st[1], st[2])]
            if k == 'BinaryOperator' and n.get('opcode') == '=':
                l, r = tu.kids(n)
                ls = tu.strip(l, casts=True)
                if ls.get('kind') == 'DeclRefExpr' and '*' in ls.get('type', {}).get('qualType', ''):
                    sz = size_of(r, st)
                    d = ls['referencedDecl'].get('id')
                    if sz is not None:
                        bufs[d] = freeze_lin(sz)
                    else:
                        bufs.pop(d, None)
                    return [(tuple(sorted(bufs.items())), st[1], st[2])]
                if ls.get('kind') == 'ArraySubscriptExpr':
                    base, idx = tu.kids(ls)
                    sz = size_of(base, st)
                    if sz is not None:
                        need(st, sz, le.lin(idx), True, n, '`%s = ...`' % tu.show(ls)[:50])
                if ls.get('kind') == 'UnaryOperator' and ls.get('opcode') == '*':
                    sz = size_of(tu.kids(ls)[0], st)
                    if sz is not None:
                        need(st, sz, ({}, 0), True, n, '`%s = ...`' % tu.show(ls)[:50])
                return [st]
            if k == 'CallExpr':
                q = tu.sd(n).get('q', '').split('::')[-1]
                if q in BUF_WRITERS:
                    args = tu.call_parts(n)[2]
                    di, ni = BUF_WRITERS[q]
                    if len(args) > max(di, ni):
                        sz = size_of(args[di], st)
                        if sz is not None:
                            need(st, sz, le.lin(args[ni]), False, n, '`%s`' % tu.show(n)[:60])
            return [st]

        def refine(blk, si, st):
            term = tu.node(blk.term) if blk.term else None
            cond = tu.node(blk.cond) if blk.cond else None
            truth = (si == 0)
            cons = set(st[1])
            ct = dict(st[2])
            if term is not None and term.get('kind') == 'ConditionalOperator':
                ct[term['id']] = truth
            c = tu.strip(cond, casts=True) if cond is not None else None
            if c is not None and c.get('kind') == 'BinaryOperator' and c.get('opcode') in ('<', '<=', '>', '>='):
                a, b = le.lin(tu.kids(c)[0]), le.lin(tu.kids(c)[1])
                if a is not None and b is not None:
                    op = c['opcode']
                    if not truth:
                        op = {'<': '>=', '<=': '>', '>': '<=', '>=': '<'}[op]
                    # normalise to  L <= 0
                    if op == '<=':
                        L = LinExpr.sub(a, b)
                    elif op == '<':
                        L = LinExpr.sub(a, b)
                        L = (L[0], L[1] + 1)
                    elif op == '>=':
                        L = LinExpr.sub(b, a)
                    else:
                        L = LinExpr.sub(b, a)
                        L = (L[0], L[1] + 1)
                    cons.add(freeze_lin(L))
            return [(st[0], frozenset(cons), tuple(sorted(ct.items())))]

        try:
            g.explore([((), frozenset(), ())], transfer, refine)
        except RuntimeError:
            ctx.undecided(R, inst, 'state explosion', tu.fn_loc(f))
            continue
        seen = {}
        for kind, node, msg in findings:
            seen.setdefault(node['id'], set()).add((kind, msg))
        for nid, ks in sorted(seen.items()):
            ninst += 1
            node = tu.node(nid)
            bads = [m for k2, m in ks if k2 == 'bad']
            unds = [m for k2, m in ks if k2 == 'und']
            if collect is not None:
                collect.append((f, node, 'bad' if bads else 'und' if unds else 'ok'))
                continue
            if bads:
                ctx.violation(R, inst, 'write into a local buffer can leave it: %s' % bads[0], tu.loc(node),
                              key='%s|%s|%s|buffer-overrun' % (R, tu.fn_file(f), inst))
            elif unds:
                ctx.undecided(R, inst, unds[0], tu.loc(node))
            else:
                ctx.ok(R, '%s @%s' % (inst, tu.loc(node)), sorted(ks)[0][1] + ' stays inside the buffer', tu.loc(node))
    return ninst


def _lin_str(l):
    def nm(t):
        return t.split(':', 1)[1] if ':' in t else t
    parts = ['%s%s' % ('' if c == 1 else '%d*' % c, nm(t)) for t, c in sorted(l[0].items())]
    if l[1] or not parts:
        parts.append(str(l[1]))
    return ' + '.join(parts)


def check_buffers(ctx, tu):
    R = 'R-C16-9'
    ctx.describe(R, 'every write through a buffer the parser allocates itself (char a[N], new char[n]) stays inside it: index < size, '
                    'length <= size, from linear forms and the comparisons guarding the path')
    fs = tu.fns(q='rkcommon::xml::readXML')
    if len(fs) != 1:
        ctx.broken('%s: readXML not found' % R)
        return
    fns = [f for f in reachable_fns(tu, fs[0]) if tu.fn_file(f).startswith('rkcommon/')]
    n = check_local_buffers(ctx, tu, fns)
    if n == 0:
        # legitimate (e.g. tokens built with std::string(begin, end)); the rule itself is exercised on drivers/c16_positive.cpp on every run
        ctx.ok(R, 'xml::readXML call graph', 'no write through a self-allocated character buffer in the %d functions reachable from readXML' % len(fns),
               tu.fn_loc(fs[0]), nontrivial=False)

# ============================================================================================
#  R-C16-10: the backward trim of text content removes whitespace bytes only
# ============================================================================================
WS_BYTES = frozenset((9, 10, 11, 12, 13, 32))
CTYPE_SETS = {
    'isspace': WS_BYTES,
    'isblank': frozenset((9, 32)),
    'isdigit': frozenset(range(48, 58)),
    'isalpha': frozenset(list(range(65, 91)) + list(range(97, 123))),
    'isalnum': frozenset(list(range(48, 58)) + list(range(65, 91)) + list(range(97, 123))),
    'isupper': frozenset(range(65, 91)),
    'islower': frozenset(range(97, 123)),
    'iscntrl': frozenset(list(range(0, 32)) + [127]),
    'isprint': frozenset(range(32, 127)),
    'isgraph': frozenset(range(33, 127)),
    'ispunct': frozenset(c for c in range(33, 127) if not (48 <= c < 58 or 65 <= c < 91 or 97 <= c < 123)),
    'isxdigit': frozenset(list(range(48, 58)) + list(range(65, 71)) + list(range(97, 103))),
}


class _NoByteValue(Exception):
    pass


def _byte_eval(tu, e, is_read, byte, env, depth=0):
    """integer value of an expression over one byte of the buffer (the expression `is_read` recognises reads as that byte, held in a
    plain `char`, signed on this target).  Pointer comparisons evaluate to true (the guard lets the loop run).  Raises _NoByteValue."""
    if e is None or depth > 40:
        raise _NoByteValue('expression too deep')
    k = e.get('kind')
    ty = (e.get('type', {}).get('desugaredQualType') or e.get('type', {}).get('qualType', '')).replace('const ', '').strip()

    def conv(v):
        if ty in ('unsigned char', 'uint8_t'):
            return v & 0xff
        if ty in ('char', 'signed char', 'int8_t'):
            v &= 0xff
            return v - 256 if v >= 128 else v
        if ty == 'bool':
            return 1 if v else 0
        return v
    if is_read(e):
        return byte - 256 if byte >= 128 else byte
    if k in ('ImplicitCastExpr', 'CStyleCastExpr', 'CXXStaticCastExpr', 'CXXFunctionalCastExpr', 'ParenExpr', 'ExprWithCleanups',
             'MaterializeTemporaryExpr', 'ConstantExpr'):
        ks = tu.kids(e)
        if not ks:
            raise _NoByteValue('empty cast')
        return conv(_byte_eval(tu, ks[-1], is_read, byte, env, depth + 1))
    if k in ('IntegerLiteral', 'CharacterLiteral'):
        return int(e.get('value'))
    if k == 'CXXBoolLiteralExpr':
        return 1 if e.get('value') else 0
    if k == 'DeclRefExpr':
        d = e.get('referencedDecl', {}).get('id')
        if d in env:
            return env[d]
        cv = tu.sd(e).get('cv')
        if cv is not None:
            return int(cv)
        raise _NoByteValue('variable `%s`' % tu.show(e))
    if k == 'UnaryOperator':
        op = e.get('opcode')
        v = _byte_eval(tu, tu.kids(e)[0], is_read, byte, env, depth + 1)
        if op == '!':
            return 0 if v else 1
        if op == '-':
            return -v
        if op == '+':
            return v
        if op == '~':
            return ~v
        raise _NoByteValue('operator %s' % op)
    if k == 'BinaryOperator':
        op = e.get('opcode')
        L, R = tu.kids(e)
        pt = lambda x: (x.get('type', {}).get('qualType', '')).rstrip().endswith('*')
        if op in ('<', '>', '<=', '>=', '==', '!=') and (pt(tu.strip(L, casts=True) or L) or pt(tu.strip(R, casts=True) or R)):
            return 1
        if op == '&&':
            return 1 if (_byte_eval(tu, L, is_read, byte, env, depth + 1) and _byte_eval(tu, R, is_read, byte, env, depth + 1)) else 0
        if op == '||':
            return 1 if (_byte_eval(tu, L, is_read, byte, env, depth + 1) or _byte_eval(tu, R, is_read, byte, env, depth + 1)) else 0
        a = _byte_eval(tu, L, is_read, byte, env, depth + 1)
        b = _byte_eval(tu, R, is_read, byte, env, depth + 1)
        import operator as _o
        ops = {'<': _o.lt, '>': _o.gt, '<=': _o.le, '>=': _o.ge, '==': _o.eq, '!=': _o.ne, '+': _o.add, '-': _o.sub, '&': _o.and_,
               '|': _o.or_, '^': _o.xor, '*': _o.mul}
        if op not in ops:
            raise _NoByteValue('operator %s' % op)
        r = ops[op](a, b)
        return (1 if r else 0) if isinstance(r, bool) else r
    if k == 'ConditionalOperator':
        c, a, b = tu.kids(e)[:3]
        return _byte_eval(tu, a if _byte_eval(tu, c, is_read, byte, env, depth + 1) else b, is_read, byte, env, depth + 1)
    if k == 'CallExpr':
        sd, obj, args = tu.call_parts(e)
        q = sd.get('q', '').split('::')[-1]
        if q in CTYPE_SETS and len(args) == 1:
            v = _byte_eval(tu, args[0], is_read, byte, env, depth + 1)
            return 1 if v in CTYPE_SETS[q] else 0        # negative arguments (a sign-extended byte >= 0x80) are in no class
        cf = tu.callee_fn(e)
        if cf is not None and tu.body(cf) is not None and len(cf.get('params', [])) == len(args):
            body = tu.kids(tu.body(cf))
            if len(body) == 1 and body[0].get('kind') == 'ReturnStmt' and tu.kids(body[0]):
                env2 = {}
                for p_, a_ in zip(cf['params'], args):
                    v = _byte_eval(tu, a_, is_read, byte, env, depth + 1)
                    pt_ = p_['ct'].replace('const ', '').strip()
                    if pt_ in ('unsigned char',):
                        v &= 0xff
                    elif pt_ in ('char', 'signed char'):
                        v &= 0xff
                        v = v - 256 if v >= 128 else v
                    env2[p_['id']] = v
                return _byte_eval(tu, tu.kids(body[0])[0], lambda x: False, byte, env2, depth + 1)
        raise _NoByteValue('call of %s' % (sd.get('q') or '?'))
    raise _NoByteValue('%s' % k)


def trim_loops(tu, fns):
    """(function, loop, cursor decl id, cursor name, condition) of every loop that steps a char pointer backwards while a condition
    on the byte in front of it holds"""
    out = []
    for f in fns:
        body = tu.body(f)
        if body is None:
            continue
        for lp in tu.walk(body):
            if lp.get('kind') not in ('WhileStmt', 'ForStmt'):
                continue
            ks = tu.kids(lp)
            if lp.get('kind') == 'WhileStmt':
                cond, rest = (ks[-2], [ks[-1]]) if len(ks) >= 2 else (None, [])
            else:
                # ForStmt children: init, condvar, cond, inc, body (absent ones are {} placeholders)
                raw = lp.get('inner', [])
                cond = raw[2] if len(raw) == 5 else None
                rest = [x for x in raw[3:] if x.get('kind')] if len(raw) == 5 else []
            if cond is None or not cond.get('kind'):
                continue
            decs = set()
            for r_ in rest:
                for x in tu.walk(r_):
                    if x.get('kind') == 'UnaryOperator' and x.get('opcode') == '--':
                        d = tu.ref_decl(tu.kids(x)[0])
                        dn = tu.node(d) if d else None
                        if dn is not None and re.match(r'^(const )?char \*', dn.get('type', {}).get('qualType', '')):
                            decs.add((d, dn.get('name', '?')))
            for d, nm in sorted(decs):
                if any(_is_prev_read(tu, x, d) for x in tu.walk(cond)):
                    out.append((f, lp, d, nm, cond))
    return out


def _is_prev_read(tu, x, d):
    """x is `v[-1]` or `*(v - 1)` for the cursor declaration d"""
    def cint(y):
        y = tu.strip(y, casts=True)
        if y is None:
            return None
        if y.get('kind') == 'IntegerLiteral':
            return int(y.get('value'))
        if y.get('kind') == 'UnaryOperator' and y.get('opcode') == '-':
            v = cint(tu.kids(y)[0])
            return -v if v is not None else None
        return None
    if x.get('kind') == 'ArraySubscriptExpr':
        b, i = tu.kids(x)
        return tu.ref_decl(b) == d and cint(i) == -1
    if x.get('kind') == 'UnaryOperator' and x.get('opcode') == '*':
        y = tu.strip(tu.kids(x)[0], casts=True)
        if y is not None and y.get('kind') == 'BinaryOperator' and y.get('opcode') in ('-', '+'):
            a, b = tu.kids(y)
            c = cint(b)
            return tu.ref_decl(a) == d and c is not None and (c == 1 if y['opcode'] == '-' else c == -1)
    return False


def trim_verdict(tu, d, cond):
    """('ok'|'bad'|'und', text): the set of bytes the loop removes from the end of the content, against the whitespace bytes"""
    T = set()
    try:
        for b in range(1, 256):
            if _byte_eval(tu, cond, lambda x: x.get('kind') in ('ArraySubscriptExpr', 'UnaryOperator') and _is_prev_read(tu, x, d), b, {}):
                T.add(b)
    except _NoByteValue as ex:
        return 'und', 'the trim condition `%s` is not a function of the preceding byte alone (%s)' % (tu.show(cond)[:80], ex)
    extra = sorted(T - WS_BYTES)
    text = sorted(c for c in extra if c >= 128 or 33 <= c <= 126)
    if text:
        hi = [c for c in text if c >= 128]
        return 'bad', ('the trailing trim `%s` also removes %d non-whitespace byte value(s) (e.g. 0x%02x%s): content that ends in such a '
                       'byte is returned shortened, not merely trimmed' % (
                           tu.show(cond)[:80], len(text), text[0],
                           '; every byte >= 0x80 compares as a negative `char`, so UTF-8 text loses its last character' if hi else ''))
    return 'ok', 'removes %s only%s' % (sorted(T & WS_BYTES), (' (plus %d control byte values that XML text cannot contain)' % len(extra)) if extra else '')


def check_trim(ctx, tu):
    R = 'R-C16-10'
    ctx.describe(R, 'the loop that trims the end of a text content steps backwards only over whitespace bytes: its condition, evaluated '
                    'for each of the 255 non-NUL byte values (plain char is signed), is true for no printable or >= 0x80 byte')
    fs = tu.fns(q='rkcommon::xml::readXML')
    if len(fs) != 1:
        ctx.broken('%s: readXML not found' % R)
        return
    fns = [f for f in reachable_fns(tu, fs[0]) if tu.fn_file(f).startswith('rkcommon/')]
    loops = trim_loops(tu, fns)
    for f, lp, d, nm, cond in loops:
        inst = '%s: backward scan of `%s`' % (f['q'].replace('rkcommon::', ''), nm)
        v, why = trim_verdict(tu, d, cond)
        if v == 'ok':
            ctx.ok(R, inst, why, tu.loc(lp))
        elif v == 'bad':
            ctx.violation(R, inst, why, tu.loc(lp), key='%s|%s|%s|trims-non-whitespace' % (R, tu.fn_file(f), f['q'].replace('rkcommon::', '')))
        else:
            ctx.undecided(R, inst, why, tu.loc(lp))
    if not loops:
        # legitimate (content trimmed through std::string members); the rule itself is exercised on drivers/c16_positive.cpp on every run
        ctx.ok(R, 'xml::readXML call graph', 'no backward byte scan in the %d functions reachable from readXML' % len(fns), tu.fn_loc(fs[0]),
               nontrivial=False)


# ============================================================================================
#  R-C16-11: a token never contains the byte that ends its scan, and loses none of the scanned bytes
#  R-C16-12: the tree is assembled in document order
# ============================================================================================
def _cursor_param(f):
    for p_ in f.get('params', []):
        if re.match(r'^(const )?char \*( ?&)?$', p_['ct'].strip()):
            return p_
    return None


def _plus_const(tu, e, var):
    """k if e is `var`, `var + k`, `var - k` (k integer constant), else None"""
    e = tu.strip(e, casts=True)
    if e is None:
        return None
    if e.get('kind') == 'DeclRefExpr':
        return 0 if tu.ref_decl(e) == var else None
    if e.get('kind') == 'BinaryOperator' and e.get('opcode') in ('+', '-'):
        a, b = tu.kids(e)
        if tu.ref_decl(a) == var:
            b = tu.strip(b, casts=True)
            if b is not None and b.get('kind') == 'IntegerLiteral':
                k = int(b.get('value'))
                return k if e['opcode'] == '+' else -k
    return None


def _mentions(tu, n, var):
    return any(x.get('kind') == 'DeclRefExpr' and tu.ref_decl(x) == var for x in tu.walk(n))


def _is_cur_read(tu, x, var):
    """x is `*var` or `var[0]`"""
    if x.get('kind') == 'UnaryOperator' and x.get('opcode') == '*':
        y = tu.strip(tu.kids(x)[0], casts=True)
        return y is not None and y.get('kind') == 'DeclRefExpr' and tu.ref_decl(y) == var
    if x.get('kind') == 'ArraySubscriptExpr':
        b, i = tu.kids(x)
        i = tu.strip(i, casts=True)
        return tu.ref_decl(b) == var and i is not None and i.get('kind') == 'IntegerLiteral' and int(i.get('value')) == 0
    return False


def _true_set(tu, cond, var, env=None):
    T = set()
    for b in range(1, 256):
        if _byte_eval(tu, cond, lambda x: x.get('kind') in ('UnaryOperator', 'ArraySubscriptExpr') and _is_cur_read(tu, x, var), b, dict(env or {})):
            T.add(b)
    return T


def _only_advances(tu, body, var):
    """the statement moves `var` forward by single steps only (++var / var++ / var += 1), possibly under ifs, and may throw"""
    if body is None:
        return False
    k = body.get('kind')
    if k in ('CompoundStmt',):
        return all(_only_advances(tu, x, var) for x in tu.kids(body))
    if k == 'NullStmt':
        return True
    if k == 'IfStmt':
        ks = tu.kids(body)
        return all(_only_advances(tu, x, var) for x in ks[1:])
    if k in ('CXXThrowExpr', 'ExprWithCleanups') and any(x.get('kind') == 'CXXThrowExpr' for x in tu.walk(body)):
        return True
    if k == 'UnaryOperator' and body.get('opcode') == '++' and tu.ref_decl(tu.kids(body)[0]) == var:
        return True
    if k == 'CompoundAssignOperator' and body.get('opcode') == '+=' and tu.ref_decl(tu.kids(body)[0]) == var:
        c = tu.strip(tu.kids(body)[1], casts=True)
        return c is not None and c.get('kind') == 'IntegerLiteral' and int(c.get('value')) == 1
    return not _mentions(tu, body, var)


def _scan_loop(tu, st, var, env=None, depth=0):
    """(true-set of the continue condition) if the statement is a scan loop over the cursor `var`: a while/for loop whose condition is a
    function of the byte at the cursor and whose body only steps the cursor forward; a call of a helper that consists of such a loop over
    its by-reference cursor parameter counts as the loop.  None if the statement is something else."""
    k = st.get('kind')
    if k in ('WhileStmt', 'ForStmt'):
        if k == 'WhileStmt':
            ks = tu.kids(st)
            cond, parts = (ks[-2], [ks[-1]]) if len(ks) >= 2 else (None, [])
        else:
            raw = st.get('inner', [])
            if len(raw) != 5 or raw[0].get('kind') or raw[1].get('kind'):
                return None
            cond, parts = raw[2], [x for x in raw[3:] if x.get('kind')]
        if cond is None or not cond.get('kind') or not any(_is_cur_read(tu, x, var) for x in tu.walk(cond)):
            return None
        if any(x.get('kind') in ('UnaryOperator', 'CompoundAssignOperator', 'BinaryOperator') and x.get('opcode') in ('++', '--', '+=', '-=', '=')
               and _mentions(tu, x, var) for x in tu.walk(cond)):
            return None
        if not all(_only_advances(tu, x, var) for x in parts):
            return None
        try:
            return _true_set(tu, cond, var, env)
        except _NoByteValue:
            return None
    if k == 'CallExpr' and depth < 2:
        sd, obj, args = tu.call_parts(st)
        cf = tu.callee_fn(st)
        if cf is None or tu.body(cf) is None or not args or tu.ref_decl(args[0]) != var:
            return None
        cp = _cursor_param(cf)
        if cp is None or cf['params'][0]['id'] != cp['id'] or not cp['ct'].rstrip().endswith('&'):
            return None
        env2 = {}
        for p_, a_ in zip(cf['params'][1:], args[1:]):
            a0 = tu.strip(a_, casts=True)
            if a0 is not None and a0.get('kind') in ('CharacterLiteral', 'IntegerLiteral'):
                env2[p_['id']] = int(a0.get('value'))
        body = [x for x in tu.kids(tu.body(cf)) if x.get('kind') != 'NullStmt']
        if len(body) == 1:
            return _scan_loop(tu, body[0], cp['id'], env2, depth + 1)
    return None


def _motion(tu, st, var):
    """bytes the statement moves the cursor forward over: list of byte values (None = unknown byte), or 'unknown'"""
    k = st.get('kind')
    if not _mentions(tu, st, var):
        return []
    if k == 'UnaryOperator' and st.get('opcode') == '++' and tu.ref_decl(tu.kids(st)[0]) == var:
        return [None]
    if k == 'CallExpr':
        sd, obj, args = tu.call_parts(st)
        cf = tu.callee_fn(st)
        if cf is not None and len(args) == 2 and tu.ref_decl(args[0]) == var and _is_consume(tu, cf):
            a1 = tu.strip(args[1], casts=True)
            if a1 is not None and a1.get('kind') == 'CharacterLiteral':
                return [int(a1.get('value')) & 0xff]
            if a1 is not None and a1.get('kind') == 'StringLiteral':
                try:
                    import ast as pyast
                    return [ord(c) & 0xff for c in pyast.literal_eval(a1.get('value', '""'))]
                except Exception:
                    return 'unknown'
    return 'unknown'


def _is_consume(tu, cf, depth=0):
    """cf(char *&s, c): checks that *s is c (throwing otherwise) and advances by one; or the word form that does so per character"""
    body = tu.body(cf)
    cp = _cursor_param(cf)
    if body is None or cp is None or len(cf.get('params', [])) != 2 or not cp['ct'].rstrip().endswith('&') or depth > 2:
        return False
    incs = [x for x in tu.walk(body) if x.get('kind') == 'UnaryOperator' and x.get('opcode') == '++' and tu.ref_decl(tu.kids(x)[0]) == cp['id']]
    calls = [x for x in tu.walk(body) if x.get('kind') == 'CallExpr' and tu.call_parts(x)[2] and tu.ref_decl(tu.call_parts(x)[2][0]) == cp['id']]
    second = cf['params'][1]
    if 'char *' in second['ct']:          # word form: consumes each character of the literal through the single-character form
        return any(tu.callee_fn(c) is not None and _is_consume(tu, tu.callee_fn(c), depth + 1) for c in calls) or (
            len(incs) == 1 and any(x.get('kind') == 'CXXThrowExpr' for x in tu.walk(body)))
    throws = any(x.get('kind') == 'CXXThrowExpr' for x in tu.walk(body))
    checks = throws or any(tu.callee_fn(c) is not None and any(y.get('kind') == 'CXXThrowExpr' for y in tu.walk(tu.body(tu.callee_fn(c)) or {}))
                           for c in calls)
    return len(incs) == 1 and checks


def token_sites(tu, fns):
    """(function, construction node, verdict, text) for every token built from a [begin, end) pair of local cursors"""
    out = []
    for f in fns:
        cp = _cursor_param(f)
        body = tu.body(f)
        if cp is None or body is None:
            continue
        S = cp['id']
        for n in tu.walk(body):
            if n.get('kind') not in ('CallExpr', 'CXXConstructExpr', 'CXXTemporaryObjectExpr'):
                continue
            if n.get('kind') == 'CallExpr':
                args = tu.call_parts(n)[2]
            else:
                if 'basic_string' not in tu.sd(n).get('q', ''):
                    continue
                args = [a for a in tu.kids(n) if a.get('kind') != 'CXXDefaultArgExpr']
            if len(args) < 2:
                continue
            B, E = tu.ref_decl(args[0]), tu.ref_decl(args[1])
            bd, ed = (tu.node(B) if B else None), (tu.node(E) if E else None)
            if bd is None or ed is None or B == E or bd.get('kind') != 'VarDecl' or ed.get('kind') != 'VarDecl':
                continue
            if not all(re.match(r'^(const )?char \*( const)?$', d.get('type', {}).get('qualType', '')) and tu.kids(d) for d in (bd, ed)):
                continue
            a = _plus_const(tu, tu.kids(bd)[-1], S)
            b = _plus_const(tu, tu.kids(ed)[-1], S)
            if a is None or b is None:
                continue
            out.append((f, n) + _token_verdict(tu, f, S, bd, ed, a, b))
    return out


def _token_verdict(tu, f, S, bd, ed, a, b):
    def assigned(d):
        for x in tu.walk(tu.body(f)):
            if x.get('kind') in ('BinaryOperator', 'CompoundAssignOperator') and x.get('opcode', '').endswith('=') and \
                    x.get('opcode') not in ('==', '!=', '<=', '>=') and tu.ref_decl(tu.kids(x)[0]) == d['id']:
                return True
            if x.get('kind') == 'UnaryOperator' and x.get('opcode') in ('++', '--') and tu.ref_decl(tu.kids(x)[0]) == d['id']:
                return True
        return False
    if assigned(bd):
        return 'none', 'the begin pointer is modified after its capture'
    sb, se = tu.par(bd), tu.par(ed)          # DeclStmts
    cb = tu.par(sb) if sb is not None else None
    if sb is None or se is None or cb is None or cb is not tu.par(se) or cb.get('kind') != 'CompoundStmt':
        return 'none', 'begin and end are not captured in one statement sequence'
    seq = tu.kids(cb)
    ib, ie = [i for i, x in enumerate(seq) if x is sb], [i for i, x in enumerate(seq) if x is se]
    if not ib or not ie or ib[0] >= ie[0]:
        return 'none', 'capture order not recognised'
    pre, post, T, seen_loop = [], [], None, False
    for st in seq[ib[0] + 1:ie[0]]:
        st0 = tu.strip(st) or st
        ts = _scan_loop(tu, st0, S)
        if ts is not None:
            if seen_loop:
                return 'none', 'more than one scan loop between the captures'
            seen_loop, T = True, ts
            continue
        m = _motion(tu, st0, S)
        if m == 'unknown':
            return 'none', 'a statement between the captures moves the cursor in a way that is not followed: `%s`' % tu.show(st0)[:60]
        (post if seen_loop else pre).extend(m)
    if not seen_loop:
        return 'none', 'no scan loop between the captures'
    nm_b, nm_e = bd.get('name', 'begin'), ed.get('name', 'end')
    begin_rel = a - len(pre)
    end_rel = b + len(post)
    if end_rel > 0:
        return 'bad', ('`%s` is captured %d byte(s) behind the position where the scan stopped: the token [%s, %s) includes the byte that '
                       'ended the scan (the closing delimiter becomes part of the value)' % (nm_e, end_rel, nm_b, nm_e))
    if end_rel < 0:
        return 'bad', '`%s` is captured %d byte(s) in front of the position where the scan stopped: the token loses its last byte(s)' % (nm_e, -end_rel)
    if begin_rel > 0:
        return 'bad', '`%s` points %d byte(s) behind the first scanned byte: the token loses its first byte(s)' % (nm_b, begin_rel)
    if begin_rel < 0:
        inside = pre[len(pre) + begin_rel:] if -begin_rel <= len(pre) else None
        if inside is None:
            return 'bad', '`%s` points in front of the bytes consumed for this token' % nm_b
        for c in inside:
            if c is not None and c not in T:
                return 'bad', ('`%s` is captured in front of the consumed delimiter %r, a byte the scan itself stops at: the delimiter becomes '
                               'the first byte of the token' % (nm_b, chr(c)))
        if any(c is None for c in inside):
            # bytes stepped over without a literal: accepted when an enclosing test of the byte implies the scan's own continue condition
            cur, Ti = tu.par(sb), None
            for _ in range(12):
                if cur is None or cur.get('kind') in ('FunctionDecl', 'CXXMethodDecl'):
                    break
                if cur.get('kind') == 'IfStmt':
                    cnd = tu.kids(cur)[0]
                    if any(_is_cur_read(tu, x, S) for x in tu.walk(cnd)):
                        try:
                            Ti = _true_set(tu, cnd, S)
                        except _NoByteValue:
                            Ti = None
                        break
                cur = tu.par(cur)
            if Ti is None or not Ti <= T:
                return 'none', 'the token starts with a byte stepped over without a test that implies the scan condition'
    return 'ok', 'token [%s, %s) = exactly the bytes of the scan%s' % (nm_b, nm_e, (' plus %d accepted leading byte(s)' % -begin_rel) if begin_rel < 0 else '')


CHILD_MUTATORS_BAD = ('insert', 'emplace', 'erase', 'pop_back', 'clear', 'resize', 'assign', 'swap')


def check_tokens_and_order(ctx, tu):
    R11, R12 = 'R-C16-11', 'R-C16-12'
    ctx.describe(R11, 'a token [begin, end) built by the parser consists of exactly the bytes of its scan loop: it neither includes the byte the '
                      'scan stopped at (or a consumed delimiter the scan would stop at) nor loses scanned bytes; positions from the statement '
                      'sequence between the two captures, delimiter classes from the loop condition evaluated for every byte value')
    ctx.describe(R12, 'the tree is assembled in document order: children are only appended (push_back / emplace_back of the node just parsed), '
                      'and a property is stored under the name and with the value that the same parseProp call produced')
    fs = tu.fns(q='rkcommon::xml::readXML')
    if len(fs) != 1:
        ctx.broken('%s: readXML not found' % R11)
        return
    fns = [f for f in reachable_fns(tu, fs[0]) if tu.fn_file(f).startswith('rkcommon/')]
    nrec = 0
    for f, n, v, why in token_sites(tu, fns):
        inst = '%s: token at %s' % (f['q'].replace('rkcommon::', ''), tu.loc(n))
        if v == 'ok':
            nrec += 1
            ctx.ok(R11, inst, why, tu.loc(n))
        elif v == 'bad':
            nrec += 1
            ctx.violation(R11, inst, why, tu.loc(n), key='%s|%s|%s|token-extent' % (R11, tu.fn_file(f), f['q'].replace('rkcommon::', '')))
        else:
            ctx.ok(R11, inst, 'not decided here (%s)' % why, tu.loc(n), nontrivial=False)
    if nrec == 0:
        ctx.ok(R11, 'xml::readXML call graph', 'no [begin, end) token with an inline scan in the %d functions reachable from readXML' % len(fns),
               tu.fn_loc(fs[0]), nontrivial=False)
    # ---- R-C16-12
    nodes = 0
    for f in fns:
        body = tu.body(f)
        if body is None:
            continue
        for n in tu.walk(body):
            if n.get('kind') != 'CXXMemberCallExpr':
                continue
            sd, obj, args = tu.call_parts(n)
            o = tu.strip(obj, casts=True) if obj is not None else None
            if o is None or o.get('kind') != 'MemberExpr' or o.get('name') != 'child':
                continue
            name = sd.get('q', '').split('::')[-1]
            inst = '%s: %s at %s' % (f['q'].replace('rkcommon::', ''), tu.show(n)[:50], tu.loc(n))
            if name in ('push_back', 'emplace_back'):
                nodes += 1
                ctx.ok(R12, inst, 'child appended at the end', tu.loc(n))
            elif name in ('insert', 'emplace') and args and re.search(r'\bc?end\(\)', tu.show(args[0])) and 'child' in tu.show(args[0]):
                nodes += 1
                ctx.ok(R12, inst, 'child inserted at end()', tu.loc(n))
            elif name in ('insert', 'emplace') and not (args and re.search(r'\bc?begin\(\)', tu.show(args[0]))):
                ctx.ok(R12, inst, 'not decided here (insert position not recognised)', tu.loc(n), nontrivial=False)
            elif name in CHILD_MUTATORS_BAD:
                nodes += 1
                ctx.violation(R12, inst, 'the child list is modified with %s(): children are no longer kept in the order (and number) in which '
                              'they were parsed' % name, tu.loc(n), key='%s|%s|%s|child-%s' % (R12, tu.fn_file(f), f['q'].replace('rkcommon::', ''), name))
        for n in tu.walk(body):
            # X.properties[k] = v
            if n.get('kind') != 'CXXOperatorCallExpr' or not tu.sd(n).get('q', '').endswith('::operator='):
                continue
            sd, obj, args = tu.call_parts(n)
            sub = tu.strip(obj, casts=True) if obj is not None else None
            if sub is None or sub.get('kind') != 'CXXOperatorCallExpr' or not tu.sd(sub).get('q', '').endswith('::operator[]'):
                continue
            sd2, obj2, args2 = tu.call_parts(sub)
            o2 = tu.strip(obj2, casts=True) if obj2 is not None else None
            if o2 is None or o2.get('kind') != 'MemberExpr' or o2.get('name') != 'properties' or not args2 or not args:
                continue
            kd, vd = tu.ref_decl(args2[0]), tu.ref_decl(args[0])
            inst = '%s: %s' % (f['q'].replace('rkcommon::', ''), tu.show(n)[:60])
            # the producing call: a call in this function that receives both variables by reference
            prod = None
            for c in tu.walk(body):
                if c.get('kind') == 'CallExpr':
                    ds = [tu.ref_decl(a_) for a_ in tu.call_parts(c)[2]]
                    if kd in ds and vd in ds and kd != vd:
                        prod = (c, ds.index(kd), ds.index(vd))
                        break
            if prod is None:
                ctx.ok(R12, inst, 'not decided here (key and value are not both outputs of one call)', tu.loc(n), nontrivial=False)
                continue
            cf = tu.callee_fn(prod[0])
            pn = [p_.get('name', '') for p_ in cf.get('params', [])] if cf else []
            nodes += 1
            if len(pn) > max(prod[1], prod[2]) and 'name' in pn[prod[2]].lower() and 'val' in pn[prod[1]].lower():
                ctx.violation(R12, inst, 'the property is stored with key and value exchanged: the key is the variable that `%s` fills as `%s`, '
                              'the value the one it fills as `%s`' % (cf['q'].split('::')[-1], pn[prod[1]], pn[prod[2]]), tu.loc(n),
                              key='%s|%s|%s|property-key-value' % (R12, tu.fn_file(f), f['q'].replace('rkcommon::', '')))
            elif prod[1] < prod[2]:
                ctx.ok(R12, inst, 'key = output %d, value = output %d of %s' % (prod[1], prod[2], tu.show(prod[0])[:40]), tu.loc(n))
            else:
                ctx.ok(R12, inst, 'not decided here (output roles of %s not recognised)' % tu.show(prod[0])[:40], tu.loc(n), nontrivial=False)
    if nodes == 0:
        ctx.ok(R12, 'xml::readXML call graph', 'no child list / property map write recognised in the %d functions reachable from readXML' % len(fns),
               tu.fn_loc(fs[0]), nontrivial=False)


# ============================================================================================
#  R-C16-13: where one comment is accepted, any number of comments is accepted
# ============================================================================================
def _fn_mentions_char(tu, f, ch, depth=1):
    body = tu.body(f)
    if body is None:
        return False
    for x in tu.walk(body):
        if x.get('kind') == 'CharacterLiteral' and int(x.get('value', -1)) == ch:
            return True
        if depth > 0 and x.get('kind') == 'CallExpr':
            cf = tu.callee_fn(x)
            if cf is not None and cf['id'] != f['id'] and tu.fn_file(cf).startswith('rkcommon/') and _fn_mentions_char(tu, cf, ch, depth - 1):
                return True
    return False


def _is_ws_skipper(tu, cf):
    """the function only steps its by-reference cursor over whitespace: scan loops whose condition is true for whitespace bytes only, or
    `s += strspn(s, SET)` with a whitespace SET; it never throws"""
    cp = _cursor_param(cf)
    body = tu.body(cf)
    if cp is None or body is None or not cp['ct'].rstrip().endswith('&') or any(x.get('kind') == 'CXXThrowExpr' for x in tu.walk(body)):
        return False
    sts = [x for x in tu.kids(body) if x.get('kind') != 'NullStmt']
    if not sts:
        return False
    eng = Engine(tu, None)
    for st in sts:
        st0 = tu.strip(st) or st
        T = _scan_loop(tu, st0, cp['id'])
        if T is not None and T and T <= WS_BYTES:
            continue
        if st0.get('kind') == 'CompoundAssignOperator' and st0.get('opcode') == '+=' and tu.ref_decl(tu.kids(st0)[0]) == cp['id']:
            rhs = tu.strip(tu.kids(st0)[1], casts=True)
            if rhs is not None and rhs.get('kind') == 'CallExpr' and tu.sd(rhs).get('q', '').split('::')[-1] == 'strspn':
                lb = eng.lit_bytes(tu.call_parts(rhs)[2][1])
                if lb is not None and set(lb) <= WS_BYTES:
                    continue
        return False
    return True


def check_comment_repetition(ctx, tu):
    R = 'R-C16-13'
    ctx.describe(R, 'wherever the reader accepts a comment it accepts a run of comments: on every path from a successful comment skip to the '
                    'next parse action on the cursor (a call that may consume input other than whitespace, a step of the cursor) the comment '
                    'skipper is tried again; helpers that wrap the skipper are followed')
    fs = tu.fns(q='rkcommon::xml::readXML')
    if len(fs) != 1:
        ctx.broken('%s: readXML not found' % R)
        return
    fns = [f for f in reachable_fns(tu, fs[0]) if tu.fn_file(f).startswith('rkcommon/')]
    byid = {f['id']: f for f in fns}
    skippers = set()
    for f in fns:
        cp = _cursor_param(f)
        if cp is not None and cp['ct'].rstrip().endswith('&') and f['fty'].startswith('bool') and len(f.get('params', [])) == 1 \
                and _fn_mentions_char(tu, f, ord('!')) and _fn_mentions_char(tu, f, ord('<'), 0):
            skippers.add(f['id'])
    if not skippers:
        ctx.ok(R, 'xml::readXML call graph', 'no comment skipper (bool f(char *&) testing for `<!`) among the %d functions' % len(fns),
               tu.fn_loc(fs[0]), nontrivial=False)
        return
    ws = {f['id'] for f in fns if _is_ws_skipper(tu, f)}

    def calls_skipper(f, seen=()):
        for x in tu.walk(tu.body(f) or {}):
            if x.get('kind') == 'CallExpr':
                cf = tu.callee_fn(x)
                if cf is None:
                    continue
                if cf['id'] in skippers:
                    return True
        return False
    wrappers = {f['id'] for f in fns if f['id'] not in skippers and calls_skipper(f) and _cursor_param(f) is not None}
    findings = {}

    def run(f, pend0, depth, top=None):
        top = top or f
        """explores f from `pending = pend0`; returns the set of pending values at its exits"""
        g = tu.cfg(f)
        cp = _cursor_param(f)
        if g is None or cp is None:
            return {pend0}
        S = cp['id']

        def cursor_arg(n):
            args = tu.call_parts(n)[2]
            return any(tu.ref_decl(a) == S for a in args)

        def transfer(blk, i, el, st):
            if el[0] != 'S':
                return [st]
            n = tu.node(el[1])
            if n is None:
                return [st]
            pend, last = st
            k = n.get('kind')
            if k == 'CallExpr':
                cf = tu.callee_fn(n)
                if cf is not None and cf['id'] in skippers and cursor_arg(n):
                    return [(1, (n['id'], True)), (0, (n['id'], False))]
                if cf is not None and cf['id'] in ws and cursor_arg(n):
                    return [st]
                if cf is not None and cf['id'] in wrappers and cursor_arg(n) and depth < 3 and cf['id'] != f['id']:
                    return [(p2, None) for p2 in sorted(run(cf, pend, depth + 1, top))]
                if cursor_arg(n):
                    if pend:
                        findings.setdefault((top['id'], n['id']), (top, n))
                    return [(0, None)]
                return [st]
            if k in ('UnaryOperator', 'CompoundAssignOperator') and n.get('opcode') in ('++', '+=') and tu.ref_decl(tu.kids(n)[0]) == S:
                if pend:
                    findings.setdefault((top['id'], n['id']), (top, n))
                return [(0, None)]
            return [st]

        def not_a_comment(cnode, taken):
            """the branch outcome shows that the cursor does not stand on `<!`: `*s == c` / `s[1] == c` and their negations"""
            c = tu.strip(cnode, casts=True)
            if c is not None and c.get('kind') == 'BinaryOperator' and c.get('opcode') in ('&&', '||'):
                # the block that ends in the whole `A && B` has just evaluated B (A was decided in an earlier block)
                L, Rr = tu.kids(c)
                if (c['opcode'] == '&&') == taken:
                    return not_a_comment(L, taken) or not_a_comment(Rr, taken)
                return not_a_comment(Rr, taken)
            if c is None or c.get('kind') != 'BinaryOperator' or c.get('opcode') not in ('==', '!='):
                return False
            L, Rr = tu.kids(c)
            for a, b in ((L, Rr), (Rr, L)):
                a0 = tu.strip(a, casts=True)
                b0 = tu.strip(b, casts=True)
                if a0 is None or b0 is None or b0.get('kind') not in ('CharacterLiteral', 'IntegerLiteral'):
                    continue
                idx = None
                if _is_cur_read(tu, a0, S):
                    idx = 0
                elif a0.get('kind') == 'ArraySubscriptExpr' and tu.ref_decl(tu.kids(a0)[0]) == S:
                    i0 = tu.strip(tu.kids(a0)[1], casts=True)
                    if i0 is not None and i0.get('kind') == 'IntegerLiteral' and int(i0.get('value')) == 1:
                        idx = 1
                if idx is None:
                    continue
                val = int(b0.get('value')) & 0xff
                equal = (c['opcode'] == '==') == taken
                lead = ord('<') if idx == 0 else ord('!')
                return (equal and val != lead) or ((not equal) and val == lead)
            return False

        def refine(blk, si, st):
            if blk.cond is None or len(blk.succ) != 2:
                return [st]
            if st[0] and not_a_comment(tu.node(blk.cond), si == 0):
                return [(0, st[1])]
            if st[1] is None:
                return [st]
            c = tu.strip(tu.node(blk.cond), casts=True)
            neg = False
            while c is not None and c.get('kind') == 'UnaryOperator' and c.get('opcode') == '!':
                neg = not neg
                c = tu.strip(tu.kids(c)[0], casts=True)
            if c is None or c.get('id') != st[1][0]:
                return [st]
            val = st[1][1] != neg
            return [st] if val == (si == 0) else []

        res = g.explore([(pend0, None)], transfer, refine)
        return {s_[0] for (s_, via) in res.exits if not g.blocks[via].noret} or {pend0}

    n = 0
    for f in fns:
        if f['id'] in skippers or not (calls_skipper(f) or any(
                x.get('kind') == 'CallExpr' and (tu.callee_fn(x) or {}).get('id') in wrappers for x in tu.walk(tu.body(f) or {}))):
            continue
        before = set(findings)
        run(f, 0, 0)
        n += 1
        new = [findings[k_] for k_ in findings if k_ not in before]
        inst = f['q'].replace('rkcommon::', '')
        if not new:
            ctx.ok(R, inst, 'after a skipped comment the skipper is tried again before anything else is parsed', tu.fn_loc(f))
    for (fid, nid), (f, nd) in sorted(findings.items(), key=lambda kv: tu.loc(kv[1][1])):
        inst = f['q'].replace('rkcommon::', '')
        ctx.violation(R, inst, 'after a comment has been skipped the parser goes on to `%s` without trying for another comment: a second comment '
                      'in a row (allowed wherever one comment is) is taken for a node / content and the document is rejected or misread'
                      % tu.show(nd)[:60], tu.loc(nd), key='%s|%s|%s|single-comment' % (R, tu.fn_file(f), inst))


# ============================================================================================
#  R-C16-14: the FILE opened by readXML is closed on every way out
# ============================================================================================
def check_file_handle(ctx, tu):
    R = 'R-C16-14'
    ctx.describe(R, 'every FILE* that the reader opens is closed on every way out of the function that opened it: on each return (fclose '
                    'on every path) and when a callee throws (RAII owner, or a try block whose handler closes and rethrows); a leaked '
                    'descriptor per rejected document ends with fopen failing for valid ones')
    fs = tu.fns(q='rkcommon::xml::readXML')
    if len(fs) != 1:
        ctx.broken('%s: readXML not found' % R)
        return
    fns = [f for f in reachable_fns(tu, fs[0]) if tu.fn_file(f).startswith('rkcommon/')]
    ex = ExcFacts(tu, fns)
    n = 0
    for f in fns:
        body = tu.body(f)
        if body is None:
            continue
        for vd in tu.walk(body):
            if vd.get('kind') != 'VarDecl' or not tu.kids(vd):
                continue
            opens = [x for x in tu.walk(tu.kids(vd)[-1]) if x.get('kind') == 'CallExpr' and tu.sd(x).get('q', '').split('::')[-1] in ('fopen', 'fdopen', 'freopen')]
            if not opens:
                continue
            n += 1
            qt = vd.get('type', {}).get('qualType', '')
            inst = '%s: %s %s' % (f['q'].replace('rkcommon::', ''), qt, vd.get('name'))
            key = '%s|%s|%s|' % (R, tu.fn_file(f), f['q'].replace('rkcommon::', ''))
            if 'unique_ptr' in qt or 'shared_ptr' in qt:
                ctx.ok(R, inst, 'owned by a smart pointer with a closing deleter', tu.loc(vd))
                continue
            if not re.match(r'^(FILE|std::FILE|_IO_FILE) \*( const)?$', qt.replace('struct ', '')):
                ctx.ok(R, inst, 'not decided here (the handle is kept in a `%s`)' % qt, tu.loc(vd), nontrivial=False)
                continue
            V = vd['id']

            def closes(x):
                return x.get('kind') == 'CallExpr' and tu.sd(x).get('q', '').split('::')[-1] == 'fclose' and \
                    tu.call_parts(x)[2] and tu.ref_decl(tu.call_parts(x)[2][0]) == V
            # (a) exceptional exits: a throwing construct after the open, outside a try block whose handlers close the file
            leak = None
            started = False
            for x in _walk_no_lambda(tu, body):
                if x is vd:
                    started = True
                    continue
                if not started:
                    continue
                thrower = None
                if x.get('kind') == 'CXXThrowExpr' and tu.kids(x):
                    thrower = 'throw-expression'
                elif x.get('kind') in CALLS:
                    cf = tu.callee_fn(x)
                    if cf is not None and cf['id'] in ex.fns and ex.may[cf['id']]:
                        thrower = 'call of %s, which can throw (%s)' % (cf['q'].split('::')[-1], '; '.join(ex.witness(cf)[-1:]))
                if thrower is None:
                    continue
                # protected if inside a try whose every handler closes the file, or directly preceded by a close on its path (throw after fclose)
                cur, prot = x, False
                while cur is not None and cur is not body:
                    par = tu.par(cur)
                    if par is not None and par.get('kind') == 'CXXTryStmt' and tu.kids(par) and tu.kids(par)[0] is cur:
                        handlers = tu.kids(par)[1:]
                        # (the parser's throws are all std::runtime_error, rule R-C16-3, so a handler for that type or a wider one catches them)
                        if handlers and all(any(closes(y) for y in tu.walk(h)) for h in handlers):
                            prot = True
                            break
                    cur = par
                if not prot:
                    # under `if (!file)` / `if (file == nullptr)` nothing is open
                    cur = x
                    while cur is not None and cur is not body and not prot:
                        par = tu.par(cur)
                        if par is not None and par.get('kind') == 'IfStmt' and len(tu.kids(par)) >= 2 and tu.kids(par)[1] is cur:
                            c = tu.strip(tu.kids(par)[0], casts=True)
                            if c is not None and c.get('kind') == 'UnaryOperator' and c.get('opcode') == '!' and tu.ref_decl(tu.kids(c)[0]) == V:
                                prot = True
                            if c is not None and c.get('kind') == 'BinaryOperator' and c.get('opcode') == '==' and \
                                    any(tu.ref_decl(y) == V for y in tu.kids(c)) and any(
                                        (tu.strip(y, casts=True) or {}).get('kind') in ('CXXNullPtrLiteralExpr', 'GNUNullExpr', 'IntegerLiteral')
                                        for y in tu.kids(c)):
                                prot = True
                        cur = par
                if not prot and x.get('kind') == 'CXXThrowExpr':
                    # `fclose(file); throw ...;` in one statement sequence
                    stmt = x
                    while tu.par(stmt) is not None and tu.par(stmt).get('kind') not in ('CompoundStmt',):
                        stmt = tu.par(stmt)
                    seq = tu.kids(tu.par(stmt)) if tu.par(stmt) is not None else []
                    idx = [i for i, y in enumerate(seq) if y is stmt]
                    if idx and any(any(closes(z) for z in tu.walk(y)) for y in seq[:idx[0]]):
                        prot = True
                if not prot:
                    leak = (x, thrower)
                    break
            if leak is not None:
                ctx.violation(R, inst, 'after `%s` is opened a %s is reached outside any try block whose handlers close it (and the handle is a raw '
                              'pointer, no RAII owner): each document that is rejected leaks one descriptor, and after RLIMIT_NOFILE '
                              'rejections fopen fails, so valid documents are rejected as well' % (vd.get('name'), leak[1]), tu.loc(leak[0]),
                              key=key + 'leaked-on-exception')
                continue
            # (b) normal exits: fclose on every path to a return
            g = tu.cfg(f)
            bad = []
            twice = []
            # closed inside the try block, then a construct that can throw, then closed again by the handler
            for t in _walk_no_lambda(tu, body):
                if t.get('kind') != 'CXXTryStmt' or not tu.kids(t):
                    continue
                blk = tu.kids(t)[0]
                handlers = [h for h in tu.kids(t)[1:] if any(closes(y) for y in tu.walk(h))]
                if not handlers:
                    continue
                closed_at = None
                for y in _walk_no_lambda(tu, blk):
                    if closes(y):
                        closed_at = y
                    elif closed_at is not None:
                        thrower = y.get('kind') == 'CXXThrowExpr' and tu.kids(y)
                        if y.get('kind') in CALLS:
                            cf = tu.callee_fn(y)
                            thrower = cf is not None and cf['id'] in ex.fns and ex.may[cf['id']]
                        if thrower:
                            twice.append(y)
                            break
            if g is not None:
                def transfer(blk, i, el, st):
                    if el[0] != 'S':
                        return [st]
                    x = tu.node(el[1])
                    if x is None:
                        return [st]
                    if x is vd or (x.get('kind') == 'DeclStmt' and any(y is vd for y in tu.kids(x))):
                        return ['open']
                    if closes(x):
                        if st == 'closed':
                            twice.append(x)
                        return ['closed']
                    if x.get('kind') == 'ReturnStmt' and st == 'open':
                        bad.append(x)
                    return [st]
                g.explore(['none'], transfer, None)
            if twice:
                ctx.violation(R, inst, '`%s` is closed a second time: it was already closed when `%s` is reached, which %s - fclose on a closed '
                              'stream is undefined behaviour (double free of the FILE object: abort, or a stream another thread has just '
                              'opened is closed)' % (vd.get('name'), tu.show(twice[0])[:50],
                                                     'can throw into a handler that closes it again' if not closes(twice[0]) else 'closes it again'),
                              tu.loc(twice[0]), key=key + 'closed-twice')
            elif bad:
                ctx.violation(R, inst, 'a return is reached with `%s` still open (no fclose on that path)' % vd.get('name'), tu.loc(bad[0]),
                              key=key + 'not-closed-on-return')
            else:
                ctx.ok(R, inst, 'closed on every return path; throwing constructs after the open are inside a try block whose handlers close it',
                       tu.loc(vd))
    if n == 0:
        ctx.ok(R, 'xml::readXML call graph', 'no fopen in the %d functions reachable from readXML' % len(fns), tu.fn_loc(fs[0]), nontrivial=False)


# ============================================================================================
#  R-C16-15: the length returned by (v)snprintf is not the number of bytes in the buffer
# ============================================================================================
FORMATTERS = {'snprintf': (0, 1), 'vsnprintf': (0, 1)}       # (buffer argument, size argument)
LEN_READERS = {'memcpy': (1, 2), 'memmove': (1, 2), 'fwrite': (0, None), 'write': (1, 2), 'strncpy': (1, 2), 'strndup': (0, 1)}


def formatted_length_sites(tu, fns):
    """[(function, use node, verdict, text)]: for every variable that receives the result of snprintf/vsnprintf into a buffer B: each place
    that reads B with a length computed from that variable (std::string(B, n), .assign/.append(B, n), memcpy(.., B, n), fwrite(B, 1, n)).
    'bad' when the variable is never compared against anything but 0 and never goes through min/clamp: the result is the length the text
    would have had, which exceeds the buffer for long text.  'skip' when some comparison / min exists (not decided here)."""
    out = []
    for f in fns:
        body = tu.body(f)
        if body is None:
            continue
        lens = {}       # var id -> (buffer decl id, call)
        for n in _walk_no_lambda(tu, body):
            call = None
            var = None
            if n.get('kind') == 'VarDecl' and tu.kids(n):
                e = tu.strip(tu.kids(n)[-1], casts=True)
                if e is not None and e.get('kind') == 'CallExpr':
                    call, var = e, n['id']
            elif n.get('kind') == 'BinaryOperator' and n.get('opcode') == '=':
                l, r = tu.kids(n)
                e = tu.strip(r, casts=True)
                if e is not None and e.get('kind') == 'CallExpr':
                    call, var = e, tu.ref_decl(l)
            if call is None or var is None:
                continue
            q = tu.sd(call).get('q', '').split('::')[-1]
            if q not in FORMATTERS:
                continue
            args = tu.call_parts(call)[2]
            if not args:
                continue
            b = tu.ref_decl(args[0])
            if b is not None:
                lens[var] = (b, call)
        if not lens:
            continue

        def mentions(e, v):
            return any(x.get('kind') == 'DeclRefExpr' and x.get('referencedDecl', {}).get('id') == v for x in tu.walk(e))

        def bounded(v):
            for x in _walk_no_lambda(tu, body):
                if x.get('kind') == 'BinaryOperator' and x.get('opcode') in ('<', '<=', '>', '>='):
                    l, r = tu.kids(x)
                    for a, b2 in ((l, r), (r, l)):
                        if tu.ref_decl(a) == v and tu.sd(tu.strip(b2, casts=True)).get('cv') not in ('0', '-1'):
                            return True
                if x.get('kind') in CALLS and tu.sd(x).get('q', '').split('::')[-1] in ('min', 'clamp') and mentions(x, v):
                    return True
            return False

        for n in _walk_no_lambda(tu, body):
            k = n.get('kind')
            pairs = []
            if k in ('CXXConstructExpr', 'CXXTemporaryObjectExpr') and re.search(r'basic_string|std::string', n.get('type', {}).get('qualType', '')):
                a = [x for x in tu.kids(n) if x.get('kind') != 'CXXDefaultArgExpr']
                if len(a) >= 2:
                    pairs.append((a[0], a[1]))
            elif k == 'CXXMemberCallExpr' and tu.sd(n).get('q', '').split('::')[-1] in ('assign', 'append', 'write', 'insert'):
                a = tu.call_parts(n)[2]
                for i in range(len(a) - 1):
                    pairs.append((a[i], a[i + 1]))
            elif k == 'CallExpr':
                q = tu.sd(n).get('q', '').split('::')[-1]
                if q in LEN_READERS:
                    a = tu.call_parts(n)[2]
                    si, ni = LEN_READERS[q]
                    if ni is None and len(a) >= 3:
                        pairs.append((a[0], a[1]))
                        pairs.append((a[0], a[2]))
                    elif ni is not None and len(a) > max(si, ni):
                        pairs.append((a[si], a[ni]))
            for be, ne in pairs:
                b = tu.ref_decl(be)
                for v, (vb, call) in lens.items():
                    if b is not None and b == vb and mentions(ne, v):
                        if bounded(v):
                            out.append((f, n, 'skip', 'the length is compared / clamped somewhere in the function'))
                        else:
                            out.append((f, n, 'bad', '`%s` reads `%s` bytes from the buffer filled by `%s`, but that call returns the length '
                                        'the whole text would have had, not the number of bytes stored: for text longer than the buffer '
                                        'the read runs past its end' % (tu.show(n)[:60], tu.show(ne)[:40], tu.show(call)[:50])))
    return out


def check_formatted_length(ctx, tu):
    R = 'R-C16-15'
    ctx.describe(R, 'a length obtained from snprintf / vsnprintf is clamped to the buffer size before it is used to read the buffer '
                    '(the functions return the untruncated length): error messages built from document text of any length stay in bounds')
    fs = tu.fns(q='rkcommon::xml::readXML')
    if len(fs) != 1:
        ctx.broken('%s: readXML not found' % R)
        return
    fns = [f for f in reachable_fns(tu, fs[0]) if tu.fn_file(f).startswith('rkcommon/')]
    sites = formatted_length_sites(tu, fns)
    for f, n, v, why in sites:
        inst = '%s %s' % (f['q'].replace('rkcommon::', ''), f['fty'])
        if v == 'bad':
            ctx.violation(R, inst, why, tu.loc(n), key='%s|%s|%s|formatted-length-unclamped' % (R, tu.fn_file(f), f['q'].replace('rkcommon::', '')))
        else:
            ctx.ok(R, inst, 'not decided here (%s)' % why, tu.loc(n), nontrivial=False)
    if not sites:
        ctx.ok(R, 'xml::readXML call graph', 'no buffer is read with a length taken from snprintf / vsnprintf in the %d functions reachable '
               'from readXML' % len(fns), tu.fn_loc(fs[0]), nontrivial=False)


# ============================================================================================
#  R-C16-16: standard conversions that throw std::invalid_argument / std::out_of_range on document text
# ============================================================================================
STD_CONVERSIONS = ('stoi', 'stol', 'stoll', 'stoul', 'stoull', 'stof', 'stod', 'stold')
CATCHES_LOGIC = ('...', 'exception', 'logic_error')


def conversion_sites(tu, fns):
    """[(function, call, verdict, text)] for each call of std::sto* in the functions: 'ok' inside a try block with a handler for
    `...`, std::exception or std::logic_error (or both std::invalid_argument and std::out_of_range) that does not rethrow the same
    exception; 'bad' otherwise (the argument is text, anything but a literal)."""
    out = []
    for f in fns:
        body = tu.body(f)
        if body is None:
            continue
        for n in _walk_no_lambda(tu, body):
            if n.get('kind') != 'CallExpr':
                continue
            q = tu.sd(n).get('q', '')
            if not (q.startswith('std::') and q.split('::')[-1] in STD_CONVERSIONS):
                continue
            args = tu.call_parts(n)[2]
            if args and all(x.get('kind') in ('StringLiteral', 'ImplicitCastExpr', 'CXXConstructExpr', 'MaterializeTemporaryExpr',
                                              'CXXBindTemporaryExpr', 'CXXDefaultArgExpr') for x in tu.walk(args[0])):
                out.append((f, n, 'ok', 'argument is a literal'))
                continue
            cur, prot = n, False
            while cur is not None and cur is not body and not prot:
                par = tu.par(cur)
                if par is not None and par.get('kind') == 'CXXTryStmt' and tu.kids(par) and tu.kids(par)[0] is cur:
                    seen = set()
                    for h in tu.kids(par)[1:]:
                        hk = tu.kids(h)
                        ty = '...'
                        if hk and hk[0].get('kind') == 'VarDecl':
                            ty = hk[0].get('type', {}).get('qualType', '')
                        rethrows = any(x.get('kind') == 'CXXThrowExpr' and not tu.kids(x) for x in tu.walk(h))
                        for c in CATCHES_LOGIC + ('invalid_argument', 'out_of_range'):
                            if (c == '...' and ty == '...') or (c != '...' and re.search(r'\b%s\b' % c, ty)):
                                if not rethrows:
                                    seen.add(c)
                    if seen & set(CATCHES_LOGIC) or {'invalid_argument', 'out_of_range'} <= seen:
                        prot = True
                cur = par
            if prot:
                out.append((f, n, 'ok', 'inside a try block whose handler converts std::invalid_argument / std::out_of_range'))
            else:
                out.append((f, n, 'bad', '`%s` throws std::invalid_argument for text that does not start with a number and std::out_of_range for '
                            'one that does not fit - both are std::logic_error, not std::runtime_error - and no enclosing try block in this '
                            'function converts them: a document with such text makes readXML throw a foreign exception type (and skip the '
                            'handler that closes the file)' % tu.show(n)[:60]))
    return out


def check_foreign_exceptions(ctx, tu):
    R = 'R-C16-16'
    ctx.describe(R, 'no std::sto* conversion of document text in the parser call graph outside a try block that converts '
                    'std::invalid_argument / std::out_of_range: the only exception type readXML lets out is std::runtime_error')
    fs = tu.fns(q='rkcommon::xml::readXML')
    if len(fs) != 1:
        ctx.broken('%s: readXML not found' % R)
        return
    fns = [f for f in reachable_fns(tu, fs[0]) if tu.fn_file(f).startswith('rkcommon/')]
    sites = conversion_sites(tu, fns)
    for f, n, v, why in sites:
        inst = '%s %s' % (f['q'].replace('rkcommon::', ''), f['fty'])
        if v == 'bad':
            ctx.violation(R, inst, why, tu.loc(n), key='%s|%s|%s|foreign-exception:%s' % (
                R, tu.fn_file(f), f['q'].replace('rkcommon::', ''), tu.sd(n).get('q', '').split('::')[-1]))
        else:
            ctx.ok(R, inst, why, tu.loc(n))
    if not sites:
        ctx.ok(R, 'xml::readXML call graph', 'no std::sto* conversion in the %d functions reachable from readXML' % len(fns), tu.fn_loc(fs[0]),
               nontrivial=False)


# ============================================================================================
#  R-C16-17: every document readXML returns was read from the file in this call
# ============================================================================================
FILE_READERS = ('fread', 'fread_unlocked', 'fgets', 'fgetc', 'getc', 'getline', 'read', 'pread', 'mmap')


def check_reads_file(ctx, tu):
    R = 'R-C16-17'
    ctx.describe(R, 'every return of readXML is reached only through a read of the file in this very call (fread, directly or in a helper): '
                    'the document depends on the bytes the file holds now, not on what an earlier call saw under the same name')
    fs = tu.fns(q='rkcommon::xml::readXML')
    if len(fs) != 1 or tu.cfg(fs[0]) is None:
        ctx.broken('%s: readXML not found' % R)
        return
    f = fs[0]
    fns = {x['id']: x for x in reachable_fns(tu, f) if tu.fn_file(x).startswith('rkcommon/')}
    direct = set()
    calls = {}
    for fid, x in fns.items():
        b = tu.body(x)
        if b is None:
            continue
        for n in tu.walk(b):
            if n.get('kind') in CALLS:
                q = tu.sd(n).get('q', '')
                if q.split('::')[-1] in FILE_READERS and ('::' not in q or q.startswith('std::')):
                    direct.add(fid)
                if 'basic_istream' in q or 'basic_ifstream' in q or 'basic_filebuf' in q or 'istreambuf_iterator' in q:
                    direct.add(fid)
                cf = tu.callee_fn(n)
                if cf is not None and cf['id'] in fns:
                    calls.setdefault(fid, set()).add(cf['id'])
    readers = set(direct)
    ch = True
    while ch:
        ch = False
        for fid, cs in calls.items():
            if fid not in readers and cs & readers:
                readers.add(fid)
                ch = True
    if f['id'] not in readers:
        ctx.undecided(R, 'xml::readXML', 'no recognised read of the file (fread, fgets, getc, read, an input stream) is reachable from readXML',
                      tu.fn_loc(f))
        return
    bad = []
    g = tu.cfg(f)

    def is_read(x):
        if x.get('kind') not in CALLS:
            return False
        q = tu.sd(x).get('q', '')
        if q.split('::')[-1] in FILE_READERS and ('::' not in q or q.startswith('std::')):
            return True
        if 'basic_istream' in q or 'basic_ifstream' in q or 'istreambuf_iterator' in q:
            return True
        cf = tu.callee_fn(x)
        return cf is not None and cf['id'] in readers and cf['id'] != f['id']

    # a read may be skipped because there is nothing to read: a loop / if around the read whose condition is arithmetic on integer variables
    # only (`while (numRead < numBytes)`, `if (numBytes > 0)`) - no call, no pointer or object operand
    size_guards = set()
    for x in tu.walk(tu.body(f)):
        if is_read(x):
            cur = tu.par(x)
            while cur is not None and cur.get('id') != f['id']:
                if cur.get('kind') in ('IfStmt', 'WhileStmt', 'ForStmt', 'DoStmt'):
                    size_guards.add(cur['id'])
                cur = tu.par(cur)

    def arithmetic_only(c):
        if c is None:
            return False
        for y in tu.walk(c):
            k = y.get('kind')
            if k in CALLS or k in ('CXXMemberCallExpr', 'MemberExpr', 'CXXThisExpr', 'LambdaExpr'):
                return False
            if k == 'DeclRefExpr' and not re.match(r'^(const )?(unsigned |signed )?(long long|long|int|short|char|size_t|ssize_t|std::size_t|off_t|__off_t|ptrdiff_t)( int)?( const)?$',
                                                   y.get('type', {}).get('qualType', '')):
                return False
        return True

    def transfer(blk, i, el, st):
        if el[0] != 'S':
            return [st]
        x = tu.node(el[1])
        if x is None:
            return [st]
        if is_read(x):
            return [True]
        if x.get('kind') == 'ReturnStmt' and not st:
            bad.append(x)
        return [st]

    def refine(blk, si, st):
        if not st and blk.term in size_guards and arithmetic_only(tu.node(blk.cond) if blk.cond else None):
            return [True]
        return [st]
    try:
        g.explore([False], transfer, refine)
    except RuntimeError:
        ctx.undecided(R, 'xml::readXML', 'state explosion', tu.fn_loc(f))
        return
    if bad:
        ctx.violation(R, 'xml::readXML', 'the return at %s is reached on a path that never reads the file in this call (the only reads, in %s, '
                      'are bypassed): the document handed back is not computed from the bytes the file holds now - a file rewritten '
                      'under the same name is answered with stale contents, a now malformed one is accepted' % (
                          tu.loc(bad[0]), ', '.join(sorted(fns[i]['q'].split('::')[-1] for i in direct))), tu.loc(bad[0]),
                      key='%s|%s|readXML|return-without-reading-the-file' % (R, XML_FILE))
    else:
        ctx.ok(R, 'xml::readXML', 'every return is dominated by a read of the file (%s)' % ', '.join(sorted(fns[i]['q'].split('::')[-1] for i in direct)),
               tu.fn_loc(f))

# ============================================================================================
#  R-C16-18: no stack allocation sized by the document;  R-C16-19: the parser does not leave the file buffer modified
# ============================================================================================
STACK_ALLOCATORS = ('alloca', '__builtin_alloca', '__builtin_alloca_with_align', '_alloca')


def _parser_fns(tu):
    fs = tu.fns(q='rkcommon::xml::readXML')
    if len(fs) != 1:
        return None, []
    return fs[0], [f for f in reachable_fns(tu, fs[0]) if tu.fn_file(f).startswith('rkcommon/')]


def stack_allocation_sites(tu, fns):
    """(function, node, 'const'|'bad'|'guarded', text) for every alloca call / variable-length array"""
    le = LinExpr(tu)
    out = []
    for f in fns:
        body = tu.body(f)
        if body is None:
            continue
        for n in tu.walk(body):
            size = None
            if n.get('kind') == 'CallExpr':
                qn = tu.sd(n).get('q', '').split('::')[-1]
                if not qn:
                    c = tu.strip(tu.kids(n)[0]) if tu.kids(n) else None
                    qn = (c or {}).get('referencedDecl', {}).get('name', '') if c else ''
                if qn not in STACK_ALLOCATORS:
                    continue
                args = tu.kids(n)[1:]
                size = args[0] if args else None
            elif n.get('kind') == 'VarDecl' and re.search(r'\[[^\]\d][^\]]*\]', n.get('type', {}).get('qualType', '')):
                size = None
            else:
                continue
            l = le.lin(size) if size is not None else None
            if l is not None and not l[0]:
                out.append((f, n, 'const', 'constant size %d' % l[1]))
                continue
            # a guard `size-term < constant` on an enclosing if makes it a bounded allocation: not decided here
            guarded = False
            x = tu.par(n)
            while x is not None and x.get('id') != body.get('id'):
                if x.get('kind') in ('IfStmt', 'ConditionalOperator'):
                    guarded = True
                x = tu.par(x)
            out.append((f, n, 'guarded' if guarded else 'bad', tu.show(size) if size is not None else 'variable-length array'))
    return out


def check_stack_allocation(ctx, tu):
    R = 'R-C16-18'
    ctx.describe(R, 'no function reachable from readXML allocates stack memory (alloca, variable-length array) of a size that is not a constant: '
                    'token and content lengths come from the document, a single long token would overflow the stack (the reader never crashes)')
    start, fns = _parser_fns(tu)
    if start is None:
        ctx.broken('%s: readXML not found' % R)
        return
    sites = stack_allocation_sites(tu, fns)
    for f, n, v, why in sites:
        inst = '%s %s' % (f['q'].replace('rkcommon::', ''), f['fty'])
        if v == 'bad':
            ctx.violation(R, inst, 'stack allocation of `%s` bytes: the size is taken from the document (a token, content or file length) and is '
                          'not bounded, so one long token (a few MiB of inlined data, less on a thread with a small stack) overflows the stack and '
                          'the process dies instead of readXML returning or throwing' % why, tu.loc(n),
                          key='%s|%s|%s|unbounded-stack-allocation' % (R, tu.fn_file(f), f['q'].replace('rkcommon::', '')))
        elif v == 'guarded':
            ctx.undecided(R, inst, 'stack allocation of `%s` bytes under a condition: the bound the condition gives is not evaluated here' % why, tu.loc(n))
        else:
            ctx.ok(R, inst, 'stack allocation of %s' % why, tu.loc(n), nontrivial=False)
    if not sites:
        ctx.ok(R, 'xml::readXML call graph', 'no alloca / variable-length array in the %d functions reachable from readXML' % len(fns),
               tu.fn_loc(start), nontrivial=False)


def _is_charp(ct):
    return re.match(r'^char \*(?:const)? ?&?$', ct or '') is not None


def buffer_store_sites(tu, fns, start):
    """Stores through pointers into the file buffer in the parse functions (every reachable function but readXML itself, which owns and
    terminates the buffer: R-C16-3).  A pointer is a buffer pointer if it is a `char *` / `char *&` parameter, a cursor member, or a local
    `char *` initialised / assigned from one; pointers that only ever hold memory the function allocated itself (new[], alloca, an array) are
    R-C16-9's.  -> (function, node, verdict, text); verdict in ok | bad | undecided"""
    out = []
    for f in fns:
        if f['id'] == start['id']:
            continue
        body = tu.body(f)
        if body is None:
            continue
        buf = set()
        for p in f.get('params', []):
            pid = p.get('id') if isinstance(p, dict) else None
            ct = p.get('ct') if isinstance(p, dict) else None
            if pid and _is_charp(ct):
                buf.add(pid)
        fnode = tu.node(f['id']) if tu.node(f['id']) is not None else None
        if fnode is not None:
            for k in tu.kids(fnode):
                if k.get('kind') == 'ParmVarDecl' and _is_charp(k.get('type', {}).get('desugaredQualType') or k.get('type', {}).get('qualType')):
                    buf.add(k['id'])
        locals_ = [v for v in tu.walk(body) if v.get('kind') == 'VarDecl' and _is_charp(v.get('type', {}).get('qualType'))]

        def mentions_buf(e):
            for x in tu.walk(e):
                if x.get('kind') == 'DeclRefExpr' and x.get('referencedDecl', {}).get('id') in buf:
                    return True
                if x.get('kind') == 'MemberExpr' and tu.member_of_this(x) and _is_charp(x.get('type', {}).get('qualType')):
                    return True
            return False

        def own_memory(e):
            e = tu.strip(e, casts=True)
            if e is None:
                return False
            if e.get('kind') == 'CXXNewExpr':
                return True
            if e.get('kind') == 'CallExpr':
                c = tu.strip(tu.kids(e)[0]) if tu.kids(e) else None
                nm = (c or {}).get('referencedDecl', {}).get('name', '')
                return nm in STACK_ALLOCATORS or nm in ('malloc', 'calloc', 'realloc')
            if e.get('kind') == 'DeclRefExpr' and '[' in e.get('type', {}).get('qualType', ''):
                return True
            return False
        changed = True
        while changed:
            changed = False
            for v in locals_:
                if v['id'] in buf:
                    continue
                srcs = [k for k in tu.kids(v)]
                for a in tu.walk(body):
                    if a.get('kind') == 'BinaryOperator' and a.get('opcode') == '=' and tu.ref_decl(tu.kids(a)[0]) == v['id']:
                        srcs.append(tu.kids(a)[1])
                if any(not own_memory(e) and mentions_buf(e) for e in srcs):
                    buf.add(v['id'])
                    changed = True

        names = {}

        def target(lhs):
            """(base decl id | 'this->f', text) if lhs is *p / p[k] with p a buffer pointer"""
            lhs = tu.strip(lhs)
            if lhs is None:
                return None
            base = None
            if lhs.get('kind') == 'UnaryOperator' and lhs.get('opcode') == '*':
                base = tu.kids(lhs)[0]
            elif lhs.get('kind') == 'ArraySubscriptExpr':
                base = tu.kids(lhs)[0]
            if base is None or not mentions_buf(base):
                return None
            b = tu.strip(base, casts=True)
            d = tu.ref_decl(b)
            if d is not None:
                names[d] = b.get('referencedDecl', {}).get('name', '?')
            if d is None and b is not None and b.get('kind') == 'MemberExpr' and tu.member_of_this(b):
                d = 'this->' + b.get('name', '')
            exact = lhs.get('kind') == 'UnaryOperator' and d is not None
            return (d if exact else None, tu.show(lhs))

        def saved_from(e):
            """if e reads a local char variable initialised with `*p` (p a buffer pointer): (that variable's decl, p)"""
            d = tu.ref_decl(e)
            v = tu.node(d) if d is not None else None
            if v is None or v.get('kind') != 'VarDecl' or not tu.kids(v):
                return None
            t = target(tu.kids(v)[0])
            return (v, t[0]) if t is not None and t[0] is not None else None

        def modified_between(p, a, b):
            """is pointer p assigned / stepped, or handed to a parse function by reference, between nodes a and b (source order)?"""
            lo, hi = (tu.line(a) or (tu.line(tu.kids(a)[0]) if tu.kids(a) else 0)), tu.line(b)
            for x in tu.walk(body):
                if not (lo <= tu.line(x) <= hi):
                    continue
                if x.get('kind') in ('BinaryOperator', 'CompoundAssignOperator') and x.get('opcode', '').endswith('=') \
                        and x.get('opcode') not in ('==', '!=', '<=', '>=') and tu.ref_decl(tu.kids(x)[0]) == p:
                    return True
                if x.get('kind') == 'UnaryOperator' and x.get('opcode') in ('++', '--') and tu.ref_decl(tu.kids(x)[0]) == p:
                    return True
                if x.get('kind') in ('CallExpr', 'CXXMemberCallExpr') and tu.callee_fn(x) is not None and tu.cfg(tu.callee_fn(x)) is not None \
                        and tu.fn_file(tu.callee_fn(x)).startswith('rkcommon/'):
                    return True
            return False
        stores = []
        for n in tu.walk(body):
            if n.get('kind') in ('BinaryOperator', 'CompoundAssignOperator') and n.get('opcode', '').endswith('=') \
                    and n.get('opcode') not in ('==', '!=', '<=', '>='):
                t = target(tu.kids(n)[0])
                if t is not None:
                    stores.append((n, t))
            elif n.get('kind') == 'UnaryOperator' and n.get('opcode') in ('++', '--'):
                t = target(tu.kids(n)[0])
                if t is not None:
                    stores.append((n, t))
            elif n.get('kind') == 'CallExpr':
                c = tu.strip(tu.kids(n)[0]) if tu.kids(n) else None
                nm = (c or {}).get('referencedDecl', {}).get('name', '') if c else ''
                if nm in BUF_WRITERS or nm in ('strcpy', 'strcat', 'sprintf', 'snprintf'):
                    args = tu.kids(n)[1:]
                    if args and mentions_buf(args[0]) and not own_memory(args[0]):
                        out.append((f, n, 'undecided', '%s writes through `%s` into the file buffer' % (nm, tu.show(args[0]))))
        restores = {}
        for n, (p, txt) in stores:
            rhs = tu.kids(n)[1] if n.get('kind') == 'BinaryOperator' and n.get('opcode') == '=' else None
            sv = saved_from(rhs) if rhs is not None else None
            if sv is not None:
                restores[n['id']] = sv
        for n, (p, txt) in stores:
            if n['id'] in restores:
                v, src = restores[n['id']]
                if p is None:
                    out.append((f, n, 'undecided', 'the saved byte `%s` is written back through `%s`' % (v.get('name'), txt)))
                elif p != src:
                    def nm(d):
                        return names.get(d, d if isinstance(d, str) else '?')
                    out.append((f, n, 'bad', 'the byte saved from `*%s` (`%s`) is written back to `%s`: wherever the two pointers differ the byte at `%s` '
                                'stays overwritten (a NUL in the middle of the document, or none at its end) and a byte of the document at `%s` is '
                                'replaced, so the rest of the document is parsed from a changed buffer' % (nm(src), v.get('name'), txt, nm(src), nm(p))))
                elif modified_between(p, v, n):
                    out.append((f, n, 'undecided', 'the saved byte `%s` is written back through `%s`, which may have moved since it was saved'
                                % (v.get('name'), txt)))
                else:
                    out.append((f, n, 'ok', 'the byte saved from `%s` is written back to the same place' % txt))
                continue
            rhs = tu.kids(n)[1] if n.get('kind') == 'BinaryOperator' and n.get('opcode') == '=' else None
            c = LinExpr(tu).lin(rhs) if rhs is not None else None
            back = [m for m, sv in restores.items() if p is not None and sv[1] == p and tu.line(tu.kids(sv[0])[0]) <= tu.line(n) <= tu.line(tu.node(m))]
            if c is not None and not c[0] and c[1] == 0 and back:
                continue            # the temporary terminator of a save / terminate / restore triple: judged at the restore
            out.append((f, n, 'undecided', 'store `%s` into the file buffer: the byte facts of R-C16-1 (where the terminating NUL is, which bytes are '
                        'known not to be NUL) do not follow stores' % tu.show(n)))
    return out


def check_buffer_stores(ctx, tu):
    R = 'R-C16-19'
    ctx.describe(R, 'the parse functions do not leave the file buffer modified: a byte that is replaced temporarily (terminate in place, use, restore) '
                    'is written back to the very place it was saved from; any other store into the buffer is not decided')
    start, fns = _parser_fns(tu)
    if start is None:
        ctx.broken('%s: readXML not found' % R)
        return
    sites = buffer_store_sites(tu, fns, start)
    for f, n, v, why in sites:
        inst = '%s %s' % (f['q'].replace('rkcommon::', ''), f['fty'])
        if v == 'bad':
            ctx.violation(R, inst, why, tu.loc(n), key='%s|%s|%s|saved-byte-restored-elsewhere' % (R, tu.fn_file(f), f['q'].replace('rkcommon::', '')))
        elif v == 'undecided':
            ctx.undecided(R, inst, why, tu.loc(n))
        else:
            ctx.ok(R, inst, why, tu.loc(n))
    if not sites:
        ctx.ok(R, 'xml::readXML call graph', 'no store through a pointer into the file buffer in the %d parse functions reachable from readXML '
               '(the buffer is written by readXML alone: fread and the terminator, R-C16-3)' % (len(fns) - 1), tu.fn_loc(start), nontrivial=False)


def run(ctx):
    ctx.assume('the buffer handed to parseXML is NUL-terminated (established by R-C16-3 for readXML)')
    ctx.assume('library character predicates (isalpha, isdigit, isspace) return false for the NUL byte')
    ctx.assume('readXML may run in several threads at once on different files (a free function on distinct data)')
    ctx.assume('exceptions thrown by the C++ standard library for resource exhaustion (std::bad_alloc, std::length_error) are outside the check; '
               'std::sto* conversions of document text are inside (R-C16-16)')
    tu = ctx.front.parse(XML_FILE, 'TBB')
    eng = check_cursor(ctx, tu)
    if eng is not None:
        check_whitespace_tolerance(ctx, tu, eng)
    check_readxml(ctx, tu)
    check_outparams(ctx, tu)
    check_exception_discipline(ctx, tu)
    check_buffers(ctx, tu)
    check_trim(ctx, tu)
    check_tokens_and_order(ctx, tu)
    check_comment_repetition(ctx, tu)
    check_file_handle(ctx, tu)
    check_formatted_length(ctx, tu)
    check_foreign_exceptions(ctx, tu)
    check_reads_file(ctx, tu)
    check_stack_allocation(ctx, tu)
    check_buffer_stores(ctx, tu)
    check_positive_examples(ctx)
    from rkstatic import selftest
    selftest.run(ctx)
